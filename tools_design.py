#!/usr/bin/env python3
"""Rewrites the generated blocks of DESIGN.md (between <!-- BEGIN:x --> / <!-- END:x --> markers) from known_findings.json,
seeded/*/meta.json and evidence/*.json, so that the tables in the design document are the machinery's own records."""
import json, os, re, glob
ROOT = os.path.dirname(os.path.abspath(__file__))

def findings_table():
    f = json.load(open(os.path.join(ROOT, "known_findings.json")))
    rows = ["| property | status | commit | what |", "|---|---|---|---|"]
    for e in sorted(f, key=lambda e: (e["property"], e["status"])):
        what = e["what"]
        what = re.sub(r"^fixed: property=\S+ \S+ ", "", what)
        rows.append("| %s | %s | %s | %s |" % (e["property"], e["status"], e.get("commit") or "–", what.replace("|", "\\|")))
    return "\n".join(rows)

def seeds_table():
    rows = ["| seed | breaks | what it changes | needs | confirmed (demo clean / with change; baseline tests broken) | detected by |", "|---|---|---|---|---|---|"]
    for d in sorted(glob.glob(os.path.join(ROOT, "seeded", "*"))):
        m = json.load(open(os.path.join(d, "meta.json")))
        c = m.get("confirmed", {})
        det = "; ".join("%s: exit %s (%d VIOLATION lines)" % (p, v["exit"], v["violation_lines"]) for p, v in c.get("checks", {}).items()) or "not run"
        conf = "rc %s / rc %s; %s" % (c.get("demo_on_clean_tree_rc"), c.get("demo_with_change_rc"), c.get("baseline_tests_broken") if c.get("baseline_tests_broken") is not None else "?")
        rows.append("| %s | %s | %s | %s | %s | %s |" % (os.path.basename(d), m.get("property"), str(m.get("summary", ""))[:230].replace("|", "\\|").replace("\n", " "),
                                                     str(m.get("needs", ""))[:160].replace("|", "\\|").replace("\n", " "), conf, det + (" (re-based)" if m.get("ported") else "")))
    return "\n".join(rows)

def evidence_table():
    rows = ["| property | tier | TLC states | transitions | traces validated / behaviours replayed | evaluations | distinct non-trivial | inconclusive | known-finding hits | wall s |", "|---|---|---|---|---|---|---|---|---|---|"]
    for p in sorted(glob.glob(os.path.join(ROOT, "evidence", "*.json"))):
        e = json.load(open(p)); c = e["coverage"]
        rows.append("| %s | %s | %s | %s | %s | %s | %s | %s | %s | %s |" % (e["property_id"], e["tier"], c.get("states"), c.get("transitions"), c.get("traces_validated_against_impl"),
                                                                       c.get("evaluations"), c.get("distinct_nontrivial"), c.get("inconclusive"), c.get("known_finding_hits"), e["wall_s"]))
    return "\n".join(rows)

def main():
    p = os.path.join(ROOT, "DESIGN.md")
    s = open(p).read()
    for name, fn in (("findings", findings_table), ("seeds", seeds_table), ("evidence", evidence_table)):
        b, e = "<!-- BEGIN:%s -->" % name, "<!-- END:%s -->" % name
        if b in s and e in s:
            i, j = s.index(b) + len(b), s.index(e)
            s = s[:i] + "\n" + fn() + "\n" + s[j:]
    open(p, "w").write(s)

if __name__ == "__main__":
    main()
