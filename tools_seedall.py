#!/usr/bin/env python3
"""Confirm every seeded change in its own scratch worktree and run the property's check against it (PYTHONPATH shadows /repo,
evidence and replays are redirected), without touching /repo.  Results are written into seeded/<id>/meta.json ("confirmed").
  tools_seedall.py [ids...]"""
import ast, json, os, subprocess, sys, shutil, xml.etree.ElementTree as ET
ROOT = os.path.dirname(os.path.abspath(__file__))
PY = "/venv/bin/python"
TESTMAP = [("backends/", "tests/backend tests/bosonic_files tests/integration"), ("compilers/", "tests/frontend/compilers tests/api tests/frontend/test_program.py"),
           ("apps/", "tests/apps"), ("io/", "tests/frontend/io tests/api"), ("tdm/", "tests/frontend/test_tdmprogram.py tests/frontend/test_space_unroll.py tests/frontend/test_tdm_utils.py tests/frontend/compilers/test_tdm.py"),
           ("decompositions.py", "tests/frontend/test_decompositions.py tests/frontend/test_ops_decompositions.py tests/integration/test_decompositions_integration.py tests/frontend/compilers"),
           ("engine.py", "tests/frontend tests/integration/test_engine_integration.py tests/api"), ("parameters.py", "tests/frontend tests/integration"),
           ("program", "tests/frontend tests/api tests/integration/test_engine_integration.py"), ("ops.py", "tests/frontend tests/integration")]

def sh(cmd, **kw):
    return subprocess.run(cmd, shell=True, capture_output=True, text=True, **kw)

def baseline_pass():
    v = json.load(open("/root/.vp/BASELINE.json"))["stable_pass"]
    return set(ast.literal_eval(v) if isinstance(v, str) else v)

def junit(path):
    out = {}
    for tc in ET.parse(path).getroot().iter("testcase"):
        out[tc.get("classname") + "::" + tc.get("name")] = "fail" if any(ch.tag in ("failure", "error") for ch in tc) else "ok"
    return out

def one(sid):
    d = os.path.join(ROOT, "seeded", sid)
    meta = json.load(open(os.path.join(d, "meta.json")))
    wt = "/tmp/vwt_" + sid
    sh("git -C /repo worktree remove --force %s" % wt)
    shutil.rmtree(wt, ignore_errors=True)
    r = sh("git -C /repo worktree add -q --detach %s HEAD" % wt)
    res = {"repo_head": sh("git -C /repo rev-parse --short HEAD").stdout.strip()}
    try:
        env = dict(os.environ, PYTHONPATH=wt, PYTHONHASHSEED="0", NUMBA_NUM_THREADS="1", OMP_NUM_THREADS="1")
        env.pop("STRAWBERRYFIELDS_VERIF", None)
        d0 = subprocess.run([PY, os.path.join(d, "demo.py")], cwd=wt, env=env, capture_output=True, text=True, timeout=3000)
        res["demo_on_clean_tree_rc"] = d0.returncode
        a = sh("git -C %s apply %s" % (wt, os.path.join(d, "patch.diff")))
        if a.returncode != 0:
            res["patch_applies"] = False
            res["note"] = a.stderr[-300:]
            return res
        res["patch_applies"] = True
        d1 = subprocess.run([PY, os.path.join(d, "demo.py")], cwd=wt, env=env, capture_output=True, text=True, timeout=3000)
        res["demo_with_change_rc"] = d1.returncode
        files = " ".join(meta.get("files", []))
        tests = next((t for k, t in TESTMAP if k in files), "tests/frontend tests/api")
        xml = "/tmp/vwt_%s.xml" % sid
        t = subprocess.run("%s -m pytest -q -p no:cacheprovider --timeout=900 -n 6 --junitxml=%s %s" % (PY, xml, tests), shell=True, cwd=wt, env=env,
                           capture_output=True, text=True, timeout=7200)
        res["tests_cmd"] = "cd <worktree with change> && PYTHONPATH=<worktree> /venv/bin/python -m pytest -q -p no:cacheprovider -n 6 " + tests
        res["tests_summary"] = (t.stdout.strip().splitlines() or ["?"])[-1]
        if os.path.exists(xml):
            jr = junit(xml)
            base = baseline_pass()
            res["baseline_tests_broken"] = sorted(k for k, v in jr.items() if v == "fail" and k in base)[:10]
            res["tests_run"] = len(jr)
            os.remove(xml)
        # detection by the registered checks, against the worktree
        props = meta.get("check_with") or [meta["property"]]
        out = "/tmp/vout_" + sid
        shutil.rmtree(out, ignore_errors=True)
        det = {}
        for p in props:
            e2 = dict(env, VERIF_OUT=out, VERIF_NPROC=os.environ.get("SEED_NPROC", "8"))
            c = subprocess.run([os.path.join(ROOT, "check"), p, "--tier", "quick"], cwd=ROOT, env=e2, capture_output=True, text=True, timeout=7200)
            viol = [l for l in c.stdout.splitlines() if l.startswith("VIOLATION")]
            det[p] = {"exit": c.returncode, "violation_lines": len(viol), "first": [v.split(" replay=")[0] + " " + v.split(" clause=")[1][:160] for v in viol[:2]]}
        shutil.rmtree(out, ignore_errors=True)
        res["checks"] = det
        res["detected"] = any(v["exit"] == 1 for v in det.values())
    finally:
        sh("git -C /repo worktree remove --force %s" % wt)
        shutil.rmtree(wt, ignore_errors=True)
    res["confirmed"] = bool(res.get("demo_on_clean_tree_rc") == 0 and res.get("demo_with_change_rc", 0) != 0 and not res.get("baseline_tests_broken"))
    return res

if __name__ == "__main__":
    ids = sys.argv[1:] or sorted(os.listdir(os.path.join(ROOT, "seeded")))
    for sid in ids:
        try:
            res = one(sid)
        except Exception as e:
            res = {"error": repr(e)[:300]}
        mp = os.path.join(ROOT, "seeded", sid, "meta.json")
        meta = json.load(open(mp))
        meta["confirmed"] = res
        json.dump(meta, open(mp, "w"), indent=1)
        print(sid, json.dumps({k: res.get(k) for k in ("patch_applies", "demo_on_clean_tree_rc", "demo_with_change_rc", "baseline_tests_broken", "tests_summary", "detected", "confirmed", "error")}), flush=True)
