#!/usr/bin/env python3
"""Seeded-change bookkeeping.
  tools_seed.py verify  <src_dir> <id>   confirm a candidate change in a scratch worktree: demo passes without / fails with
                                          the patch; the given test selection passes with the patch (stable baseline tests)
  tools_seed.py run     <id> [tier]      apply seeded/<id>/patch.diff to /repo, run the property's check, undo; record outcome
"""
import json, os, subprocess, sys, shutil, ast, xml.etree.ElementTree as ET
ROOT = os.path.dirname(os.path.abspath(__file__))
PY = "/venv/bin/python"

def sh(cmd, **kw):
    return subprocess.run(cmd, shell=True, capture_output=True, text=True, **kw)

def baseline_pass():
    b = json.load(open("/root/.vp/BASELINE.json"))
    v = b["stable_pass"]
    return set(ast.literal_eval(v) if isinstance(v, str) else v)

def junit_results(path):
    out = {}
    for tc in ET.parse(path).getroot().iter("testcase"):
        name = tc.get("classname") + "::" + tc.get("name")
        bad = any(ch.tag in ("failure", "error") for ch in tc)
        skipped = any(ch.tag == "skipped" for ch in tc)
        out[name] = "fail" if bad else ("skip" if skipped else "pass")
    return out

def verify(src, sid, tests):
    wt = "/tmp/vwt_" + sid.replace("/", "_")
    sh("git -C /repo worktree remove --force %s" % wt)
    r = sh("git -C /repo worktree add -q --detach %s HEAD" % wt)
    assert r.returncode == 0, r.stderr
    res = {"id": sid}
    try:
        env = dict(os.environ, PYTHONPATH=wt, PYTHONHASHSEED="0")
        env.pop("STRAWBERRYFIELDS_VERIF", None)
        d0 = subprocess.run([PY, os.path.join(src, "demo.py")], cwd=wt, env=env, capture_output=True, text=True, timeout=1800)
        res["demo_clean_rc"] = d0.returncode
        a = sh("git -C %s apply %s" % (wt, os.path.join(src, "patch.diff")))
        res["apply_rc"] = a.returncode
        if a.returncode != 0:
            res["apply_err"] = a.stderr[-500:]
            return res
        d1 = subprocess.run([PY, os.path.join(src, "demo.py")], cwd=wt, env=env, capture_output=True, text=True, timeout=1800)
        res["demo_patched_rc"] = d1.returncode
        res["demo_patched_tail"] = (d1.stdout + d1.stderr)[-600:]
        xml = "/tmp/vwt_%s.xml" % sid.replace("/", "_")
        t = subprocess.run("%s -m pytest -q -p no:cacheprovider --timeout=900 -n 10 --junitxml=%s %s" % (PY, xml, tests),
                           shell=True, cwd=wt, env=env, capture_output=True, text=True, timeout=7200)
        res["tests_cmd"] = "pytest -n 10 " + tests
        res["tests_tail"] = t.stdout.strip().splitlines()[-1] if t.stdout.strip() else t.stderr[-300:]
        jr = junit_results(xml)
        base = baseline_pass()
        broken = sorted(k for k, v in jr.items() if v == "fail" and k in base)
        res["baseline_tests_broken"] = broken[:20]
        res["n_run"] = len(jr)
        os.remove(xml)
    finally:
        sh("git -C /repo worktree remove --force %s" % wt)
        shutil.rmtree(wt, ignore_errors=True)
    res["confirmed"] = (res.get("demo_clean_rc") == 0 and res.get("demo_patched_rc", 0) != 0 and not res.get("baseline_tests_broken"))
    return res

def run(sid, tier="quick", props=None):
    d = os.path.join(ROOT, "seeded", sid)
    meta = json.load(open(os.path.join(d, "meta.json")))
    props = props or [meta["property"]]
    assert sh("git -C /repo status --porcelain").stdout.strip() == "", "/repo not clean"
    a = sh("git -C /repo apply %s" % os.path.join(d, "patch.diff"))
    assert a.returncode == 0, a.stderr
    out = {}
    try:
        for p in props:
            r = subprocess.run([os.path.join(ROOT, "check"), p, "--tier", tier], cwd=ROOT, capture_output=True, text=True, timeout=7200)
            viol = [l for l in r.stdout.splitlines() if l.startswith("VIOLATION")]
            out[p] = {"rc": r.returncode, "violations": len(viol), "first": viol[:3], "tail": r.stdout.strip().splitlines()[-1:] }
    finally:
        sh("git -C /repo checkout -- .")
    return out

if __name__ == "__main__":
    if sys.argv[1] == "verify":
        src, sid = sys.argv[2], sys.argv[3]
        tests = " ".join(sys.argv[4:]) or "tests"
        print(json.dumps(verify(src, sid, tests), indent=1))
    elif sys.argv[1] == "run":
        print(json.dumps(run(sys.argv[2], sys.argv[3] if len(sys.argv) > 3 else "quick", sys.argv[4:] or None), indent=1))
