--------------------------- MODULE BorealisGauge ---------------------------
(* The arithmetic core of the Borealis loop-phase compensation, for unbounded time bins and delays: light that entered loop l in
   bin j - d has been round the loop Rounds(j - d) times, comes back in bin j with one more round trip, and the compensation
   applied in bin j, theta * Rounds(j), is exactly what it has accumulated.  (Rounds(j) = (j - 1) \div d for bins counted from 1.) *)
EXTENDS Integers
VARIABLES
  \* @type: Int;
  j,
  \* @type: Int;
  d,
  \* @type: Int;
  theta,
  \* @type: Int;
  phi,
  \* @type: Int;
  gprev
Rounds(t) == (t - 1) \div d
Init == j \in Int /\ d \in Int /\ theta \in Int /\ phi \in Int /\ gprev \in Int /\ d >= 1 /\ j > d
Next == UNCHANGED <<j, d, theta, phi, gprev>>
\* one more round trip
OneMoreRound == Rounds(j - d) + 1 = Rounds(j)
\* (negative control, must be violated)
TwoMoreRounds == Rounds(j - d) + 2 = Rounds(j)
\* the local gauge condition of loop l in bin j (phases as integers, no reduction modulo 2 pi needed): the compensated phase gate
\* phi + Corr(j) - gprev applied to light arriving in the frame gprev of the previous loop puts it into the frame Corr(j); the
\* light coming back from the loop was in the frame Corr(j - d) and has picked up theta: the two ports of the beamsplitter agree
Corr(t) == theta * Rounds(t)
Compensated == phi + Corr(j) - gprev
PortsAgree == (gprev + Compensated - phi) = Corr(j - d) + theta
\* bins that meet vacuum in the loop (j <= d) have made no round trip
=============================================================================
