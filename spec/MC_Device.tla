------------------------------- MODULE MC_Device -------------------------------
(***************************************************************************)
(* C12: source programs for an X-series device with NP pairs (2 NP modes): *)
(* two-mode squeezers on the pairs (i, i + NP) -- absent, single, repeated *)
(* (to be merged), on a wrong pair, out of range --, an interferometer     *)
(* given as lattice gates on the signal modes and (or not) duplicated on   *)
(* the idler modes, full or partial photon counting.  TLC emits the exact  *)
(* Gaussian state of the source (the experiment that must be preserved)    *)
(* and the template of the device (the grammar the compiled circuit must   *)
(* match gate for gate, mode for mode).                                    *)
(***************************************************************************)
EXTENDS Ops, TLC, Json
CONSTANTS NP, Len0, EMIT
VARIABLES sq, recipe, dup, meas, bad, cache
a345  == <<Q(3, 5), Q(4, 5)>>
a435  == <<Q(4, 5), Q(3, 5)>>
am345 == <<Q(-3, 5), Q(4, 5)>>
K == One
NMod == 2 * NP
Sig(i) == i - 1
Idl(i) == NP + i - 1
\* squeezing choice per pair: 0 none, 1 S2(4/3), 2 S2(3/2), 3 S2(4/3) twice (repeated squeezer: merged), 4 S2(5/4) . S2(6/5)
SqOps(i, c) == CASE c = 0 -> << >>
                 [] c = 1 -> << Op("S2gate", <<Q(4, 3), A0>>, <<Sig(i), Idl(i)>>) >>
                 [] c = 2 -> << Op("S2gate", <<Q(3, 2), A0>>, <<Sig(i), Idl(i)>>) >>
                 [] c = 3 -> << Op("S2gate", <<Q(4, 3), A0>>, <<Sig(i), Idl(i)>>), Op("S2gate", <<Q(4, 3), A0>>, <<Sig(i), Idl(i)>>) >>
                 [] c = 4 -> << Op("S2gate", <<Q(5, 4), A0>>, <<Sig(i), Idl(i)>>), Op("S2gate", <<Q(6, 5), A0>>, <<Sig(i), Idl(i)>>) >>
                 \* 5: a squeezer of zero amplitude followed by one with a phase the layout does not offer (nothing to merge it into)
                 [] c = 5 -> << Op("S2gate", <<One, A0>>, <<Sig(i), Idl(i)>>), Op("S2gate", <<Q(4, 3), APi2>>, <<Sig(i), Idl(i)>>) >>
RECURSIVE CatSq(_)
CatSq(i) == IF i > NP THEN << >> ELSE SqOps(i, sq[i]) \o CatSq(i + 1)
\* interferometer pool on the signal modes (local indices 0 .. NP-1)
RECURSIVE CatP(_, _, _)
CatP(F(_), S, i) == IF i > Len(S) THEN << >> ELSE F(S[i]) \o CatP(F, S, i + 1)
SigSeq == [i \in 1 .. NP |-> i - 1]
AdjPairs == [i \in 1 .. NP - 1 |-> <<i - 1, i>>]
P1(m)  == << Op("Rgate", <<a345>>, <<m>>) >>
P2(pr) == << Op("BSgate", <<a345, APi2>>, pr), Op("MZgate", <<a345, a435>>, pr), Op("BSgate", <<APi2, A0>>, <<pr[2], pr[1]>>) >>
Pool == CatP(P1, SigSeq, 1) \o CatP(P2, AdjPairs, 1)
Shift(op, d) == [op EXCEPT !.modes = [j \in DOMAIN op.modes |-> op.modes[j] + d]]
Interf == recipe \o (IF dup THEN [j \in DOMAIN recipe |-> Shift(recipe[j], NP)] ELSE << >>)
BadOps == CASE bad = "none" -> << >>
            [] bad = "wrongpair" -> << Op("S2gate", <<Q(4, 3), A0>>, <<0, 1>>) >>
            [] bad = "toomuch" -> << Op("S2gate", <<Q(4, 1), A0>>, <<Sig(1), Idl(1)>>) >>      \* r = ln 4 > 1: out of range
            [] bad = "phase" -> << Op("S2gate", <<Q(4, 3), APi2>>, <<Sig(1), Idl(1)>>) >>          \* squeezing phase is fixed to 0 by the layout
            \* a passive gate between two squeezers of the first pair (not an "S2gates first" program)
            [] bad = "sandwich_bs" -> << Op("BSgate", <<a345, A0>>, <<Sig(1), Idl(1)>>), Op("S2gate", <<Q(4, 3), A0>>, <<Sig(1), Idl(1)>>) >>
            [] bad = "sandwich_r"  -> << Op("Rgate", <<a345>>, <<Sig(1)>>), Op("S2gate", <<Q(4, 3), A0>>, <<Sig(1), Idl(1)>>) >>
            [] bad = "late" -> << >>
\* "late": a squeezer of the first pair applied after the interferometer
Source == CatSq(1) \o BadOps \o Interf \o (IF bad = "late" THEN << Op("S2gate", <<Q(4, 3), A0>>, <<Sig(1), Idl(1)>>) >> ELSE << >>)
Init == /\ sq \in [1 .. NP -> 0 .. 5]
        /\ \E n \in 0 .. Len0 : \E f \in [1 .. n -> 1 .. Len(Pool)] : recipe = [j \in 1 .. n |-> Pool[f[j]]]
        /\ dup \in BOOLEAN /\ meas \in {"all", "partial"} /\ bad \in {"none", "wrongpair", "toomuch", "phase", "sandwich_bs", "sandwich_r", "late"}
        /\ (bad # "none") => (dup /\ meas = "all")             \* one defect at a time
        /\ (~dup \/ meas = "partial") => bad = "none"
Next == UNCHANGED <<sq, recipe, dup, meas, bad, cache>>
\* the source is inside the device's promise iff: no defect, interferometer duplicated (or empty), all modes measured
InsidePromise == bad = "none" /\ (dup \/ recipe = << >>) /\ meas = "all" /\ \A i \in 1 .. NP : sq[i] # 5
State == cache
Init0 == Init /\ cache = ApplySeq(VacuumN(NMod), Source, K)
StateOK == Symmetric(State) /\ ModeUncertainty(State)
\* the device template: S2 on every pair, NP(NP-1)/2 Mach-Zehnder gates per half in the symmetric rectangular arrangement,
\* final phase on every mode, one photon counting of all modes
EmitInv == EMIT => PrintT(ToJson([np |-> NP, source |-> Source, measured |-> IF meas = "all" THEN [i \in 1 .. NMod |-> i - 1] ELSE [i \in 1 .. NMod - 1 |-> i - 1],
                                   inside |-> InsidePromise, bad |-> bad, dup |-> dup, st |-> State]))
Spec == Init0 /\ [][Next]_<<sq, recipe, dup, meas, bad, cache>>
=============================================================================
