-------------------------------- MODULE MC_Eq --------------------------------
(* C18: the program pool for the comparison relations: every circuit of <= Len0 commands over an alphabet with
   daggered variants, inverse parameters, mode-relabelled variants, swapped two-mode targets (symmetric and
   asymmetric gates), non-Gaussian gates.  TLC prints the pool; the harness evaluates == and equivalence() on all
   ordered pairs; TraceEq.tla judges the answers.                                                                *)
EXTENDS Optimizer, TLC, Json
CONSTANTS NMod, Len0
VARIABLES circ
a345  == <<Q(3, 5), Q(4, 5)>>
a435  == <<Q(4, 5), Q(3, 5)>>
a3m45 == <<Q(3, 5), Q(-4, 5)>>
One1(m) == << Op("Rgate", <<a345>>, <<m>>), OpH("Rgate", <<a345>>, <<m>>), Op("Rgate", <<a3m45>>, <<m>>),
              Op("Sgate", <<Q(4, 3), A0>>, <<m>>), Op("Xgate", <<Q(1, 2)>>, <<m>>), Op("Kgate", <<Z(1)>>, <<m>>),
              OpH("Kgate", <<Z(1)>>, <<m>>) >>
\* further commands, used in circuits of one command and next to one fixed companion (the pool of all pairs would be too large):
\* two amounts that agree to four significant digits -- different programs all the same --, measurements <<angle, select,
\* has_select>> of the same quadrature without and with (two different) post-selection values
Extra1(m) == << Op("Xgate", <<Q(10001, 1000)>>, <<m>>), Op("Xgate", <<Q(10004, 1000)>>, <<m>>),
                Op("MeasureHomodyne", <<A0, Zero, Zero>>, <<m>>), Op("MeasureHomodyne", <<A0, Q(1, 2), One>>, <<m>>),
                Op("MeasureHomodyne", <<A0, Q(-1, 4), One>>, <<m>>), Op("MeasureHomodyne", <<APi2, Zero, Zero>>, <<m>>) >>
Two1(a, b) == << Op("BSgate", <<a345, A0>>, <<a, b>>), Op("CXgate", <<One>>, <<a, b>>), Op("MZgate", <<a345, a435>>, <<a, b>>),
                 Op("S2gate", <<Q(4, 3), A0>>, <<a, b>>), Op("CZgate", <<One>>, <<a, b>>) >>
RECURSIVE CatM(_, _)
CatM(F(_), n) == IF n = 0 THEN << >> ELSE CatM(F, n - 1) \o F(n - 1)
\* operations with a matrix argument (two different unitaries)
USwap == << <<<<Zero, Zero>>, <<One, Zero>>>>, <<<<One, Zero>>, <<Zero, Zero>>>> >>
UPhase == << <<<<One, Zero>>, <<Zero, Zero>>>>, <<<<Zero, Zero>>, <<Zero, One>>>> >>
Mat2 == << Op("Interferometer", <<USwap>>, <<0, 1>>), Op("Interferometer", <<UPhase>>, <<0, 1>>), Op("Interferometer", <<USwap>>, <<1, 0>>) >>
Alphabet == CatM(One1, NMod) \o Two1(0, 1) \o Two1(1, 0) \o << OpH("BSgate", <<a345, A0>>, <<0, 1>>), OpH("CXgate", <<One>>, <<0, 1>>) >>
            \o (IF NMod >= 3 THEN Two1(1, 2) \o Two1(0, 2) ELSE << >>)
Extras   == CatM(Extra1, NMod) \o Mat2
Companion == Op("Sgate", <<Q(4, 3), A0>>, <<0>>)
Init == \/ \E n \in 0 .. Len0 : \E f \in [1 .. n -> 1 .. Len(Alphabet)] : circ = [i \in 1 .. n |-> Alphabet[f[i]]]
        \/ \E k \in 1 .. Len(Extras) : circ \in {<<Extras[k]>>, <<Companion, Extras[k]>>, <<Extras[k], Companion>>}
Next == UNCHANGED circ
Spec == Init /\ [][Next]_circ
EmitInv == PrintT(ToJson([circ |-> circ, n |-> NMod]))
\* Whether a beamsplitter is the same gate with its two modes exchanged depends on its phase only, not on its angle (as long as the
\* angle is not a multiple of pi/2): checked here over the lattice angles, used by the harness to judge BSgate(pi/4, phi) -- whose
\* angle has no lattice value -- by the same gate with a lattice angle.
SwapThetas == << a345, a435, <<Q(5, 13), Q(12, 13)>>, <<Q(-3, 5), Q(4, 5)>> >>
SwapPhis   == << A0, APi2, a345, APi, <<Zero, Q(-1, 1)>> >>
BSPair(t, f) == << <<Op("BSgate", <<t, f>>, <<0, 1>>)>>, <<Op("BSgate", <<t, f>>, <<1, 0>>)>> >>
SwapSymmetryIndependentOfTheta ==
   \A j \in DOMAIN SwapPhis : \A i1, i2 \in DOMAIN SwapThetas :
      LET a == BSPair(SwapThetas[i1], SwapPhis[j])  b == BSPair(SwapThetas[i2], SwapPhis[j])
      IN  SameDen(a[1], a[2], 2) = SameDen(b[1], b[2], 2)
=============================================================================
