------------------------------ MODULE MC_Clique ------------------------------
(* Design-level check of the clique / subgraph machines over ALL graphs on NN nodes, all start sets, all selection
   modes, weight vectors over 1..2, every tie-break: grow keeps a clique and ends maximal, swap keeps size and
   cliqueness, shrink ends in a clique, resize visits every size.                                                  *)
EXTENDS GBSApps, TLC
CONSTANTS NN
VARIABLES E, W, mode, fn, S, steps
vars == <<E, W, mode, fn, S, steps>>
N == 0 .. NN - 1
AllEdges == {e \in SUBSET N : Cardinality(e) = 2}
Init == /\ E \in SUBSET AllEdges /\ W \in [N -> 1 .. 2] /\ mode \in {"uniform", "degree", "weight"}
        /\ fn \in {"grow", "swap", "shrink", "rgrow", "rshrink"} /\ S \in SUBSET N /\ steps = 0
        /\ (fn \in {"grow", "swap"}) => IsClique(E, S)
        /\ (fn \in {"shrink", "rgrow", "rshrink"}) => mode # "degree"
        /\ (mode = "uniform") => W = [v \in N |-> 1]
        /\ (fn \in {"rgrow", "rshrink"}) => S # {}
Step == /\ (fn = "swap" => steps = 0) /\ (fn = "rgrow" => Cardinality(S) < NN - 1) /\ (fn = "rshrink" => Cardinality(S) > 1)
        /\ S' \in Succs(fn, N, E, S, mode, W) /\ steps' = steps + 1 /\ UNCHANGED <<E, W, mode, fn>>
Spec == Init /\ [][Step]_vars
AlwaysClique   == (fn \in {"grow", "swap"}) => IsClique(E, S)
GrowIsMaximal  == (fn = "grow" /\ Succs(fn, N, E, S, mode, W) = {}) => C0(N, E, S) = {}
SwapKeepsSize  == [][fn = "swap" => Cardinality(S') = Cardinality(S)]_vars
ShrinkEndsInClique == (fn = "shrink" /\ Succs(fn, N, E, S, mode, W) = {}) => IsClique(E, S)
ResizeNeverStuck   == /\ (fn = "rgrow" /\ Cardinality(S) < NN) => Succs(fn, N, E, S, mode, W) # {}
                      /\ (fn = "rshrink" /\ Cardinality(S) > 0) => Succs(fn, N, E, S, mode, W) # {}
OneNodePerStep == [][Cardinality(S') \in {Cardinality(S) - 1, Cardinality(S), Cardinality(S) + 1}]_vars
=============================================================================
