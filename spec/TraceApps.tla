------------------------------ MODULE TraceApps ------------------------------
(* Trace validation for C19: records produced by running the real helpers with every random tie-break forced in turn.
   kind "step":  [fn, n, edges, w, mode, state, succs, ncand, stopped]  -- at `state` the code handed `ncand` candidates
                 to the generator and, forcing each in turn, reached exactly `succs`; `stopped` = it returned here.
   kind "card":  [fn, args, out]  -- exact combinatorics (out as canonical rational <<num, 1>>)
   kind "orbits": [n, out]                                                                                         *)
EXTENDS GBSApps, Sequences, Integers, TLC, Json, IOUtils
Cases == JsonDeserialize(IOEnv.CASES_FILE)
VARIABLES tid, verdict
Rng(s)  == {s[i] : i \in DOMAIN s}
EdgeSet(c) == {{c.edges[i][1], c.edges[i][2]} : i \in DOMAIN c.edges}
WOf(c)  == [v \in 0 .. c.n - 1 |-> c.w[v + 1]]
StepVerdict(c) ==
  LET N == 0 .. c.n - 1  E == EdgeSet(c)  S == Rng(c.state)  W == WOf(c)
      spec == Succs(c.fn, N, E, S, c.mode, W)
      got  == {Rng(c.succs[i]) : i \in DOMAIN c.succs}
  IN  IF ~(S \subseteq N) THEN "NotASubset"
      ELSE IF c.fn \in {"grow", "swap"} /\ ~IsClique(E, S) THEN "NotAClique"
      ELSE IF c.limit /\ got = {} THEN "accepted"                       \* size bound of resize reached
      ELSE IF got # spec THEN "CandidateSetDiffers"
      ELSE IF c.ncand # NChoices(c.fn, N, E, S, c.mode, W) THEN "CandidateCountDiffers"
      ELSE IF c.stopped # (spec = {}) THEN "StopConditionDiffers"
      ELSE IF c.fn = "shrink" /\ c.stopped /\ ~IsClique(E, S) THEN "NotAClique"
      ELSE "accepted"
CardVerdict(c) ==
  LET want == CASE c.fn = "orbit_cardinality" -> OrbitCard(c.orbit, c.modes)
                [] c.fn = "event_cardinality" -> EventCard(c.photons, c.maxc, c.modes)
  IN  IF c.out = want THEN "accepted" ELSE "CardinalityWrong"
OrbitsVerdict(c) == IF {c.out[i] : i \in DOMAIN c.out} = Orbits(c.photons) /\ Len(c.out) = Cardinality(Orbits(c.photons))
                    THEN "accepted" ELSE "OrbitsWrong"
\* probabilities handed to the generator by event_to_sample: p[i] must be OrbitCard(orbs[i]) / EventCard within 1e-9,
\* and orbs must be exactly the orbits of the event
RAbs(a) == IF RSign(a) < 0 THEN RNeg(a) ELSE a
EventPVerdict(c) ==
  LET want == {o \in Orbits(c.photons) : \A i \in DOMAIN o : o[i] <= c.maxc}
      tot  == EventCard(c.photons, c.maxc, c.modes)
  IN  IF {c.orbs[i] : i \in DOMAIN c.orbs} # want \/ Len(c.orbs) # Cardinality(want) THEN "EventOrbitsWrong"
      ELSE IF \E i \in DOMAIN c.orbs : RLt(Q(1, 1000000000), RAbs(RSub(c.p[i], RDiv(OrbitCard(c.orbs[i], c.modes), tot))))
           THEN "EventProbabilitiesWrong"
      ELSE "accepted"
\* conversions: orbit of a sample = its non-zero entries in non-increasing order; event = total if no entry exceeds maxc
ConvVerdict(c) ==
  LET nz == {i \in DOMAIN c.sample : c.sample[i] > 0}
      okOrbit == /\ Len(c.orbit) = Cardinality(nz)
                 /\ \A i \in 1 .. Len(c.orbit) - 1 : c.orbit[i] >= c.orbit[i + 1]
                 /\ \A v \in {c.sample[i] : i \in nz} \cup {c.orbit[i] : i \in DOMAIN c.orbit} :
                       Cardinality({i \in nz : c.sample[i] = v}) = Cardinality({i \in DOMAIN c.orbit : c.orbit[i] = v})
      RECURSIVE Sum(_, _)
      Sum(s, i) == IF i > Len(s) THEN 0 ELSE s[i] + Sum(s, i + 1)
      fits == \A i \in DOMAIN c.sample : c.sample[i] <= c.maxc
  IN  IF ~okOrbit THEN "SampleToOrbitWrong"
      ELSE IF fits /\ c.event # Sum(c.sample, 1) THEN "SampleToEventWrong"
      ELSE IF ~fits /\ c.event # -1 THEN "SampleToEventWrong"
      ELSE "accepted"
DensityVerdict(c) == IF Density(EdgeSet(c), Rng(c.state)) = c.out THEN "accepted" ELSE "DensityWrong"
Verdict(c) == CASE c.kind = "step" -> StepVerdict(c) [] c.kind = "card" -> CardVerdict(c)
                [] c.kind = "orbits" -> OrbitsVerdict(c) [] c.kind = "density" -> DensityVerdict(c)
                [] c.kind = "eventp" -> EventPVerdict(c) [] c.kind = "conv" -> ConvVerdict(c)
Init == tid \in DOMAIN Cases /\ verdict = Verdict(Cases[tid])
Next == UNCHANGED <<tid, verdict>>
Spec == Init /\ [][Next]_<<tid, verdict>>
Report == PrintT(ToJson([tid |-> tid, verdict |-> verdict]))
=============================================================================
