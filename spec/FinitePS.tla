------------------------------ MODULE FinitePS ------------------------------
(***************************************************************************)
(* A finite phase-space interpretation of operations (DESIGN 2.2): every   *)
(* operation is interpreted as a map of F_p^{2n}, p = 7.  Gaussian lattice *)
(* gates act by the residues of their exact symplectic matrix and          *)
(* displacement (the same definitions as the exact kernel, Ops.SympOf /    *)
(* Ops.DispOf): a group homomorphism, so products, inverses, daggers and   *)
(* commutation of gates on disjoint modes are respected.  Non-Gaussian     *)
(* gates act by their classical flows (additive in the parameter, inverted *)
(* by negation): Vgate: p += g x^2; Kgate(k): k (x^2+p^2) quarter turns;   *)
(* CKgate(k): each mode turned by k times the other's x^2+p^2.  Loss-type  *)
(* channels act by the scalar sqrt(T); preparations are constant on their  *)
(* mode.  Any rewriting that is valid for opaque gates is valid under this *)
(* interpretation, so a correct optimiser / merger / sorter is never       *)
(* flagged; a rewrite that drops a dagger, merges with the wrong sign or   *)
(* crosses non-commuting gates changes the map.                            *)
(* A point is a sequence of 2n residues (x_0..x_{n-1}, p_0..p_{n-1}); mode *)
(* m has coordinates m+1 and n+m+1.                                        *)
(***************************************************************************)
EXTENDS Ops
P == 7
Res(r)   == RModP(r, P)
NM(pt)   == Len(pt) \div 2
XI(pt, m) == m + 1
PI(pt, m) == NM(pt) + m + 1

\* linear map by the residues of G (2t x 2t local xxpp) on the ordered targets ms
FLin(pt, ms, G) ==
  LET t == Len(ms)
      idx == [a \in 1 .. 2 * t |-> IF a <= t THEN XI(pt, ms[a]) ELSE PI(pt, ms[a - t])]
      loc(i) == IF \E a \in 1 .. 2 * t : idx[a] = i THEN CHOOSE a \in 1 .. 2 * t : idx[a] = i ELSE 0
      row(a) == LET RECURSIVE Sm(_)
                    Sm(b) == IF b > 2 * t THEN 0 ELSE (Res(G[a][b]) * pt[idx[b]] + Sm(b + 1)) % P
                IN  Sm(1)
  IN  [i \in 1 .. Len(pt) |-> IF loc(i) = 0 THEN pt[i] ELSE row(loc(i))]
FDisp(pt, m, d) == [i \in 1 .. Len(pt) |-> IF i = XI(pt, m) THEN (pt[i] + Res(d[1])) % P
                                           ELSE IF i = PI(pt, m) THEN (pt[i] + Res(d[2])) % P ELSE pt[i]]
RECURSIVE QTurns(_, _, _)
QTurns(x, p, k) == IF k = 0 THEN <<x, p>> ELSE QTurns((P - p) % P, x, k - 1)     \* (x,p) -> (-p, x), k times
Energy(pt, m)   == (pt[XI(pt, m)] * pt[XI(pt, m)] + pt[PI(pt, m)] * pt[PI(pt, m)]) % P
Turn(pt, m, k)  == LET r == QTurns(pt[XI(pt, m)], pt[PI(pt, m)], k % 4) IN
                   [i \in 1 .. Len(pt) |-> IF i = XI(pt, m) THEN r[1] ELSE IF i = PI(pt, m) THEN r[2] ELSE pt[i]]
\* integer value (mod 4) of the Kerr-type parameter, inverse = negation
KInt(op)        == LET k == op.p[1][1] % 4 IN IF op.dag THEN (4 - k) % 4 ELSE k
Sgn(op, r)      == IF op.dag THEN RNeg(r) ELSE r

FApply(pt, op, k) ==
  LET m == op.modes[1] IN
  CASE op.name \in Symp1Names \cup Symp2Names \cup SympNNames -> FLin(pt, op.modes, SympOf(op))
    [] op.name \in DispNames -> FDisp(pt, m, DispOf(op, k))
    \* cubic phase gate exp(i gamma x^3 / (3 hbar)): p -> p + gamma x^2; in hbar-free coordinates (x = k x~) p~ -> p~ + gamma k x~^2
    [] op.name = "Vgate" -> [pt EXCEPT ![PI(pt, m)] = (@ + Res(RMul(Sgn(op, op.p[1]), k)) * pt[XI(pt, m)] * pt[XI(pt, m)]) % P]
    [] op.name = "Kgate" -> Turn(pt, m, KInt(op) * Energy(pt, m))
    [] op.name = "CKgate" -> LET m2 == op.modes[2]  e1 == Energy(pt, m)  e2 == Energy(pt, m2)
                             IN  Turn(Turn(pt, m, KInt(op) * e2), m2, KInt(op) * e1)
    [] op.name \in ChanNames -> FLin(pt, <<m>>, << <<op.p[1], Zero>>, <<Zero, op.p[1]>> >>)
    [] op.name = "MSgate" -> FLin(pt, <<m>>, MSLin(op))
    [] op.name = "Coherent" -> [pt EXCEPT ![XI(pt, m)] = Res(RMul(Two, RMul(op.p[1], op.p[2][1]))),
                                          ![PI(pt, m)] = Res(RMul(Two, RMul(op.p[1], op.p[2][2])))]
    [] op.name \in PrepNames \ {"Coherent"} -> [pt EXCEPT ![XI(pt, m)] = 0, ![PI(pt, m)] = 0]
    [] op.name \in {"MeasureHomodyne", "MeasureFock", "MeasureHeterodyne"} ->
          \* a measurement is a barrier: interpreted as a fixed non-linear scramble of its mode
          \* (a homodyne measurement given as <<angle, select, has_select>> also scrambles by its angle and post-selection value:
          \* measurements that differ in them are different operations)
          LET extra == IF op.name = "MeasureHomodyne" /\ Len(op.p) >= 3
                       THEN (Res(op.p[1][1]) + 2 * Res(op.p[1][2]) + (IF RIsZero(op.p[3]) THEN 0 ELSE Res(op.p[2]) + 1)) % P ELSE 0
          IN  [pt EXCEPT ![XI(pt, m)] = (pt[XI(pt, m)] * pt[XI(pt, m)] + 3 + extra) % P, ![PI(pt, m)] = (pt[PI(pt, m)] + 1) % P]
RECURSIVE FApplySeqFrom(_, _, _, _)
FApplySeqFrom(pt, ops, k, i) == IF i > Len(ops) THEN pt ELSE FApplySeqFrom(FApply(pt, ops[i], k), ops, k, i + 1)
FDenote(ops, probes, k) == [j \in 1 .. Len(probes) |-> FApplySeqFrom(probes[j], ops, k, 1)]

\* fixed probe points for n modes (a deterministic spread over F_p^{2n})
Probe(n, j)  == [i \in 1 .. 2 * n |-> (j * (i + 2) + i * i + (j * j) * (i % 3)) % P]
Probes(n, c) == [j \in 1 .. c |-> Probe(n, j)]
=============================================================================
