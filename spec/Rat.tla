-------------------------------- MODULE Rat --------------------------------
(***************************************************************************)
(* Exact rational arithmetic for TLC.  A rational is a normalised pair     *)
(* <<num, den>> with den > 0 and gcd(|num|, den) = 1, so equality of       *)
(* rationals is structural equality of TLC values.  TLC integers are       *)
(* 32-bit and TLC *raises* on overflow (it never wraps); additions are     *)
(* lcm-based and multiplications cross-cancel first to keep intermediates  *)
(* small.  Vectors are sequences of rationals, matrices sequences of rows. *)
(*                                                                         *)
(* overrides/Rat.java evaluates the same operators (Norm, RNeg, RAdd, RSub,*)
(* RMul, RInv, RDiv, RSq, RLe, RLt, RSign, RIsZero, Dot) with BigInteger   *)
(* and carries a component that does not fit in 32 bits as a decimal       *)
(* string; specifications therefore never look inside a rational except    *)
(* through these operators.                                                *)
(***************************************************************************)
EXTENDS Integers, Sequences

RECURSIVE GCD(_, _)
GCD(a, b)  == IF b = 0 THEN a ELSE GCD(b, a % b)
Abs(x)     == IF x < 0 THEN -x ELSE x

Norm(n, d) == IF n = 0 THEN <<0, 1>>
              ELSE LET g == GCD(Abs(n), Abs(d))
                       s == IF d < 0 THEN -1 ELSE 1
                   IN  <<(s * n) \div g, (s * d) \div g>>

Q(n, d)    == Norm(n, d)            \* constructor
Z(n)       == <<n, 1>>
Zero       == <<0, 1>>
One        == <<1, 1>>
Half       == <<1, 2>>
Two        == <<2, 1>>

IsRat(a)   == /\ a[2] > 0 /\ GCD(Abs(a[1]), a[2]) = 1

RNeg(a)    == <<-a[1], a[2]>>
RAdd(a, b) == IF a[1] = 0 THEN b ELSE IF b[1] = 0 THEN a ELSE
              LET g == GCD(a[2], b[2])
              IN  Norm(a[1] * (b[2] \div g) + b[1] * (a[2] \div g), (a[2] \div g) * b[2])
RSub(a, b) == RAdd(a, RNeg(b))
RMul(a, b) == IF a[1] = 0 \/ b[1] = 0 THEN <<0, 1>>
              ELSE LET g1 == GCD(Abs(a[1]), b[2])
                       g2 == GCD(Abs(b[1]), a[2])
                   IN  <<(a[1] \div g1) * (b[1] \div g2), (a[2] \div g2) * (b[2] \div g1)>>
RInv(a)    == IF a[1] < 0 THEN <<-a[2], -a[1]>> ELSE <<a[2], a[1]>>     \* a # 0
RDiv(a, b) == RMul(a, RInv(b))
RSq(a)     == RMul(a, a)
RLe(a, b)  == RSub(a, b)[1] <= 0
RLt(a, b)  == RSub(a, b)[1] < 0
RSign(a)   == IF a[1] > 0 THEN 1 ELSE IF a[1] < 0 THEN -1 ELSE 0
RIsZero(a) == a[1] = 0
\* residue of the rational a modulo the prime p (p must not divide the denominator)
RECURSIVE PowMod(_, _, _)
PowMod(b, e, p) == IF e = 0 THEN 1 ELSE (b * PowMod(b, e - 1, p)) % p
RModP(a, p) == ((a[1] % p) * PowMod(a[2] % p, p - 2, p)) % p
RAdd3(a, b, c)    == RAdd(RAdd(a, b), c)
RAdd4(a, b, c, d) == RAdd(RAdd(a, b), RAdd(c, d))

\* ---- complex rationals <<re, im>> ---------------------------------------
CMul(x, y) == <<RSub(RMul(x[1], y[1]), RMul(x[2], y[2])), RAdd(RMul(x[1], y[2]), RMul(x[2], y[1]))>>
CAdd(x, y) == <<RAdd(x[1], y[1]), RAdd(x[2], y[2])>>
CSub(x, y) == <<RSub(x[1], y[1]), RSub(x[2], y[2])>>
CConj(x)   == <<x[1], RNeg(x[2])>>
CScale(r, x) == <<RMul(r, x[1]), RMul(r, x[2])>>
COne       == <<One, Zero>>
CZero      == <<Zero, Zero>>
CI         == <<Zero, One>>

\* ---- vectors and matrices ------------------------------------------------
RECURSIVE DotFrom(_, _, _)
DotFrom(u, v, k) == IF k > Len(u) THEN Zero ELSE RAdd(RMul(u[k], v[k]), DotFrom(u, v, k + 1))
Dot(u, v)     == DotFrom(u, v, 1)

Dim(M)        == Len(M)
IdM(n)        == [i \in 1 .. n |-> [j \in 1 .. n |-> IF i = j THEN One ELSE Zero]]
ZeroM(n, m)   == [i \in 1 .. n |-> [j \in 1 .. m |-> Zero]]
ZeroV(n)      == [i \in 1 .. n |-> Zero]
Transpose(M)  == IF Len(M) = 0 THEN <<>> ELSE [j \in 1 .. Len(M[1]) |-> [i \in 1 .. Len(M) |-> M[i][j]]]
Col(M, j)     == [i \in 1 .. Len(M) |-> M[i][j]]
MatVec(M, v)  == [i \in 1 .. Len(M) |-> Dot(M[i], v)]
MatMul(A, B)  == LET Bt == Transpose(B)
                 IN  [i \in 1 .. Len(A) |-> [j \in 1 .. Len(Bt) |-> Dot(A[i], Bt[j])]]
MatAdd(A, B)  == [i \in 1 .. Len(A) |-> [j \in 1 .. Len(A[i]) |-> RAdd(A[i][j], B[i][j])]]
MatSub(A, B)  == [i \in 1 .. Len(A) |-> [j \in 1 .. Len(A[i]) |-> RSub(A[i][j], B[i][j])]]
MatScale(r, A) == [i \in 1 .. Len(A) |-> [j \in 1 .. Len(A[i]) |-> RMul(r, A[i][j])]]
VecAdd(u, v)  == [i \in 1 .. Len(u) |-> RAdd(u[i], v[i])]
VecSub(u, v)  == [i \in 1 .. Len(u) |-> RSub(u[i], v[i])]
VecScale(r, u) == [i \in 1 .. Len(u) |-> RMul(r, u[i])]
SubM(M, rows, cols) == [i \in 1 .. Len(rows) |-> [j \in 1 .. Len(cols) |-> M[rows[i]][cols[j]]]]
SubV(v, idx)  == [i \in 1 .. Len(idx) |-> v[idx[i]]]
IsSymmetric(M) == \A i \in 1 .. Len(M) : \A j \in 1 .. Len(M) : M[i][j] = M[j][i]

\* Determinant by Gaussian elimination with exact pivots (recursion on the Schur complement).
FirstNZ(M)    == IF \E i \in 1 .. Len(M) : ~RIsZero(M[i][1])
                 THEN CHOOSE i \in 1 .. Len(M) : ~RIsZero(M[i][1]) /\ \A k \in 1 .. (i - 1) : RIsZero(M[k][1])
                 ELSE 0
RECURSIVE Det(_)
Det(M) == IF Len(M) = 0 THEN One
          ELSE IF Len(M) = 1 THEN M[1][1]
          ELSE LET p == FirstNZ(M) IN
               IF p = 0 THEN Zero
               ELSE LET n    == Len(M)
                        piv  == M[p][1]
                        rows == [i \in 1 .. (n - 1) |-> IF i < p THEN i ELSE i + 1]
                        S    == [i \in 1 .. (n - 1) |-> [j \in 1 .. (n - 1) |->
                                   RSub(M[rows[i]][j + 1], RMul(RDiv(M[rows[i]][1], piv), M[p][j + 1]))]]
                        sg   == IF p % 2 = 1 THEN One ELSE <<-1, 1>>
                    IN  RMul(sg, RMul(piv, Det(S)))

\* Inverse of a small matrix through the adjugate (sizes 1, 2; 4 via block formula is not needed).
Inv2(M) == LET d == RSub(RMul(M[1][1], M[2][2]), RMul(M[1][2], M[2][1]))
           IN  << <<RDiv(M[2][2], d), RNeg(RDiv(M[1][2], d))>>,
                  <<RNeg(RDiv(M[2][1], d)), RDiv(M[1][1], d)>> >>
=============================================================================
