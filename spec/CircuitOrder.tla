---------------------------- MODULE CircuitOrder ----------------------------
(***************************************************************************)
(* Legal reorderings of a circuit (C04, also used by C03/C11/C12/C14/C18). *)
(* An abstract command is a record                                         *)
(*    [id, wires, marked]                                                  *)
(* wires  = the register modes it acts on  UNION  the modes whose measured *)
(*          value its parameters read (Command.get_dependencies),          *)
(* marked = value of the grouping predicate on it.                         *)
(* Two commands are dependent iff they share a wire; a reordering is legal *)
(* iff it is a permutation of the input that keeps the relative order of   *)
(* every dependent pair.  The scheduler Emit(c) (enabled iff all dependent *)
(* predecessors have been emitted) has exactly the legal reorderings as    *)
(* its complete behaviours (checked by TLC in MC_Order).                   *)
(***************************************************************************)
EXTENDS Naturals, Sequences, FiniteSets

Range(s)        == {s[i] : i \in DOMAIN s}
Dep(a, b)       == a.wires \cap b.wires # {}
PosIn(circ, id) == CHOOSE i \in DOMAIN circ : circ[i].id = id
\* a must stay before b (positions in the input circuit)
Before(circ, a, b) == PosIn(circ, a.id) < PosIn(circ, b.id) /\ Dep(a, b)
Ids(s)          == {s[i].id : i \in DOMAIN s}
DistinctIds(s)  == \A i, j \in DOMAIN s : i # j => s[i].id # s[j].id
\* command c may be emitted next when `done` (set of ids) has been emitted
Ready(circ, done, c) == /\ c.id \notin done
                        /\ \A i \in DOMAIN circ : Before(circ, circ[i], c) => circ[i].id \in done
SamePieces(circ, out) == /\ Len(out) = Len(circ) /\ DistinctIds(out) /\ Ids(out) = Ids(circ)
                         /\ \A i \in DOMAIN out : out[i] = circ[PosIn(circ, out[i].id)]
OrderKept(circ, out)  == \A i, j \in DOMAIN out : i < j => ~Before(circ, out[j], out[i])
Legal(circ, out)      == SamePieces(circ, out) /\ OrderKept(circ, out)

\* partition promise of group_operations: out = A ++ B ++ C with |A| = a, |B| = b
NoMarked(s)           == \A i \in DOMAIN s : ~s[i].marked
PartitionOK(out, a, b) == /\ a + b <= Len(out)
                          /\ NoMarked(SubSeq(out, 1, a))
                          /\ NoMarked(SubSeq(out, a + b + 1, Len(out)))
                          /\ (b = 0 => a + b = Len(out))
=============================================================================
