------------------------------ MODULE MC_Gauss ------------------------------
(***************************************************************************)
(* Programs over the operations shared by the simulators, on every ordered *)
(* choice of target modes, starting from an entangled / displaced / mixed  *)
(* prior state.  Behaviours = operation sequences; the state variable st   *)
(* is the exact Gaussian state after each operation.                       *)
(*                                                                         *)
(* TLC checks on the model (design level):                                 *)
(*   C07  Physical, UnitaryKeepsPurity, PassiveKeepsPhotons, LossNoGain    *)
(*   C05  TargetsOnly (gates/channels), PrepUncorrelated                   *)
(* and, with EMIT = TRUE, prints every reached (hist, st) as one JSON line *)
(* for the replay of the behaviours into the simulators (C01, C05, C07,    *)
(* C15, C16).                                                              *)
(***************************************************************************)
EXTENDS Ops, TLC, Json

CONSTANTS N,          \* number of modes
          Depth,      \* operations after the prefix
          AlphaId,    \* which alphabet
          PrefixId,   \* which prior state
          KNum, KDen, \* k = sqrt(hbar/2) = KNum/KDen
          EMIT        \* print behaviours

VARIABLES hist, st
vars == <<hist, st>>
K == Q(KNum, KDen)

\* ---- lattice values ---------------------------------------------------------
a345  == <<Q(3, 5), Q(4, 5)>>
a435  == <<Q(4, 5), Q(3, 5)>>
am345 == <<Q(-3, 5), Q(4, 5)>>
a3m45 == <<Q(3, 5), Q(-4, 5)>>
a513  == <<Q(5, 13), Q(12, 13)>>

\* ---- alphabets (tuples, never sets: parameters are heterogeneous) ----------------
RECURSIVE Cat(_, _, _)
Cat(F(_), S, i) == IF i > Len(S) THEN <<>> ELSE F(S[i]) \o Cat(F, S, i + 1)
Modes      == [i \in 1 .. N |-> i - 1]
Pairs      == LET all == [i \in 1 .. N * N |-> <<(i - 1) \div N, (i - 1) % N>>]
              IN  SelectSeq(all, LAMBDA pr : pr[1] # pr[2])

\* small-energy alphabet (Fock-comparable), "q": quick
OneQ(m) == << Op("Rgate", <<a345>>, <<m>>), Op("Rgate", <<APi>>, <<m>>), Op("Rgate", <<A0>>, <<m>>),
              OpH("Rgate", <<a435>>, <<m>>),
              Op("Fouriergate", <<>>, <<m>>),
              Op("Sgate", <<Q(4, 3), A0>>, <<m>>), Op("Sgate", <<Q(3, 4), a345>>, <<m>>),
              OpH("Sgate", <<Q(5, 4), APi2>>, <<m>>),
              Op("Pgate", <<Q(1, 2)>>, <<m>>),
              Op("Dgate", <<Q(1, 2), a345>>, <<m>>), OpH("Dgate", <<Q(1, 4), APi2>>, <<m>>),
              Op("Xgate", <<Q(1, 2)>>, <<m>>), Op("Zgate", <<Q(-1, 2)>>, <<m>>),
              Op("LossChannel", <<Q(4, 5)>>, <<m>>), Op("LossChannel", <<Zero>>, <<m>>),
              Op("ThermalLossChannel", <<Q(3, 5), Q(1, 2)>>, <<m>>),
              Op("Vacuum", <<>>, <<m>>), Op("Coherent", <<Q(1, 2), am345>>, <<m>>),
              Op("Squeezed", <<Q(4, 3), a345>>, <<m>>), Op("Thermal", <<Q(1, 2)>>, <<m>>),
              Op("DisplacedSqueezed", <<Q(1, 4), APi2, Q(3, 4), a3m45>>, <<m>>) >>
TwoQ(pr) == LET ms == pr IN
            << Op("BSgate", <<a345, A0>>, ms), Op("BSgate", <<a435, a345>>, ms), OpH("BSgate", <<a345, APi2>>, ms),
               Op("S2gate", <<Q(4, 3), A0>>, ms), Op("S2gate", <<Q(3, 4), a435>>, ms),
               Op("CXgate", <<Q(1, 2)>>, ms), Op("CZgate", <<Q(-1, 2)>>, ms),
               Op("MZgate", <<a345, a435>>, ms), Op("MZgate", <<APi2, A0>>, ms) >>

\* richer parameters (phase-space simulators only), "g"
OneG(m) == OneQ(m) \o
           << Op("Rgate", <<a513>>, <<m>>), Op("Rgate", <<AmPi2>>, <<m>>),
              Op("Sgate", <<Q(2, 1), am345>>, <<m>>), Op("Sgate", <<Q(1, 3), APi>>, <<m>>),
              OpH("Pgate", <<Q(-3, 1)>>, <<m>>), Op("Dgate", <<Q(3, 1), a3m45>>, <<m>>),
              OpH("Xgate", <<Q(5, 2)>>, <<m>>), OpH("Zgate", <<Q(7, 3)>>, <<m>>),
              Op("LossChannel", <<One>>, <<m>>), Op("LossChannel", <<Q(1, 2)>>, <<m>>),
              Op("ThermalLossChannel", <<Q(1, 2), Q(2, 1)>>, <<m>>), Op("ThermalLossChannel", <<Zero, One>>, <<m>>),
              Op("Coherent", <<Q(2, 1), a345>>, <<m>>), Op("Squeezed", <<Q(3, 1), APi>>, <<m>>),
              Op("Thermal", <<Q(2, 1)>>, <<m>>) >>
TwoG(pr) == TwoQ(pr) \o
            << Op("BSgate", <<APi2, APi>>, pr), Op("BSgate", <<A0, a345>>, pr), Op("BSgate", <<am345, a3m45>>, pr),
               OpH("S2gate", <<Q(2, 1), APi2>>, pr), Op("S2gate", <<Q(3, 2), am345>>, pr),
               OpH("CXgate", <<Q(-2, 1)>>, pr), OpH("CZgate", <<Q(3, 2)>>, pr),
               OpH("MZgate", <<a345, a435>>, pr), Op("MZgate", <<A0, a345>>, pr), Op("MZgate", <<APi, am345>>, pr) >>

\* tiny alphabet for deep behaviours, "d"
OneD(m) == << Op("Rgate", <<a345>>, <<m>>), Op("Sgate", <<Q(4, 3), APi2>>, <<m>>), Op("Dgate", <<Q(1, 2), APi>>, <<m>>),
              Op("LossChannel", <<Q(4, 5)>>, <<m>>), Op("ThermalLossChannel", <<Q(4, 5), Q(1, 2)>>, <<m>>),
              Op("Thermal", <<Q(1, 2)>>, <<m>>), Op("Fouriergate", <<>>, <<m>>) >>
TwoD(pr) == << Op("BSgate", <<a345, APi2>>, pr), Op("S2gate", <<Q(4, 3), APi>>, pr), Op("MZgate", <<APi2, APi2>>, pr),
               Op("CXgate", <<Q(1, 2)>>, pr) >>

Alphabet == CASE AlphaId = "q" -> Cat(OneQ, Modes, 1) \o Cat(TwoQ, Pairs, 1)
              [] AlphaId = "g" -> Cat(OneG, Modes, 1) \o Cat(TwoG, Pairs, 1)
              [] AlphaId = "d" -> Cat(OneD, Modes, 1) \o Cat(TwoD, Pairs, 1)

\* ---- prior states ---------------------------------------------------------------
Prefix == CASE PrefixId = "vac" -> <<>>
            [] PrefixId = "e2"  -> << Op("S2gate", <<Q(4, 3), A0>>, <<0, 1>>), Op("Dgate", <<Q(1, 4), a345>>, <<0>>),
                                      Op("LossChannel", <<Q(4, 5)>>, <<1>>) >>
            [] PrefixId = "e3"  -> << Op("S2gate", <<Q(4, 3), A0>>, <<0, 1>>), Op("BSgate", <<a345, APi2>>, <<1, 2>>),
                                      Op("Dgate", <<Q(1, 4), a345>>, <<0>>), Op("LossChannel", <<Q(4, 5)>>, <<2>>) >>
            [] PrefixId = "p3"  -> << Op("Sgate", <<Q(4, 3), A0>>, <<0>>), Op("BSgate", <<a345, A0>>, <<0, 2>>),
                                      Op("Dgate", <<Q(1, 4), APi2>>, <<1>>), Op("BSgate", <<a435, APi2>>, <<2, 1>>) >>
            \* pure, modes 0 and 1 entangled with each other only: the pair (0, 1) has a pure reduced state
            [] PrefixId = "p2"  -> << Op("Sgate", <<Q(4, 3), A0>>, <<0>>), Op("BSgate", <<a345, A0>>, <<0, 1>>),
                                      Op("Dgate", <<Q(1, 4), APi2>>, <<2>>) >>
            \* histories with a deleted mode: every operation is then applied through the simulators' mode maps
            [] PrefixId = "x3"  -> << Op("S2gate", <<Q(4, 3), A0>>, <<0, 1>>), Op("BSgate", <<a345, APi2>>, <<1, 2>>),
                                      Op("Dgate", <<Q(1, 4), a345>>, <<2>>), Op("Del", <<>>, <<0>>) >>
            [] PrefixId = "x4"  -> << Op("S2gate", <<Q(4, 3), A0>>, <<0, 3>>), Op("BSgate", <<a345, APi2>>, <<1, 2>>),
                                      Op("S2gate", <<Q(3, 4), APi2>>, <<2, 3>>), Op("Dgate", <<Q(1, 4), a345>>, <<2>>),
                                      Op("Del", <<>>, <<1>>) >>
            [] PrefixId = "e4"  -> << Op("S2gate", <<Q(4, 3), A0>>, <<0, 3>>), Op("BSgate", <<a345, APi2>>, <<1, 2>>),
                                      Op("S2gate", <<Q(3, 4), APi2>>, <<2, 3>>), Op("Dgate", <<Q(1, 4), a345>>, <<1>>),
                                      Op("LossChannel", <<Q(4, 5)>>, <<0>>) >>

Init == /\ hist = Prefix
        /\ st = ApplySeq(VacuumN(N), Prefix, K)

Step(op) == /\ Len(hist) - Len(Prefix) < Depth
            /\ \A j \in 1 .. Len(op.modes) : HasMode(st, op.modes[j])
            /\ hist' = Append(hist, op)
            /\ st' = Apply(st, op, K)
Next == \E i \in 1 .. Len(Alphabet) : Step(Alphabet[i])
Spec == Init /\ [][Next]_vars

\* ---- C07: every state physical; conservation laws ----------------------------------
Physical      == Symmetric(st) /\ ModeUncertainty(st)
PhysicalDet   == GlobalUncertainty(st)
Last          == hist'[Len(hist')]
UnitaryKeepsPurity  == [][IsUnitary(Last) => DetV(st') = DetV(st)]_vars
PassiveKeepsPhotons == [][IsPassive(Last) => TotalPhoton(st') = TotalPhoton(st)]_vars
LossNoGain          == [][Last.name = "LossChannel" => RLe(TotalPhoton(st'), TotalPhoton(st))]_vars
\* ---- C05: operations act only on their targets ---------------------------------------
TargetsOnly   == [][LET o == Others(st, Last) IN Reduced(st', o) = Reduced(st, o)]_vars
PrepUncorrelated == [][IsPrep(Last) =>
                        LET idx == Idx(st', Last.modes)  n == 2 * Len(st'.modes) IN
                        \A a \in 1 .. Len(idx) : \A j \in 1 .. n :
                           (\A b \in 1 .. Len(idx) : idx[b] # j) => st'.V[idx[a]][j] = Zero]_vars

\* ---- behaviour emission ----------------------------------------------------------------
EmitInv == EMIT => PrintT(ToJson([hist |-> hist, st |-> st,
                                   nbar |-> [j \in 1 .. Len(st.modes) |-> MeanPhoton(st, st.modes[j])]]))
=============================================================================
