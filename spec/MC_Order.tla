------------------------------ MODULE MC_Order ------------------------------
(* Design-level check of CircuitOrder: over ALL circuits of up to MaxLen commands on Modes wires
   (1- and 2-wire commands, marked or not) the scheduler's behaviours are exactly the legal reorderings,
   and the three-phase scheduler yields exactly the outputs satisfying the partition promise.          *)
EXTENDS CircuitOrder, TLC, FiniteSetsExt, SequencesExt
CONSTANTS Modes, MaxLen
VARIABLES circ, out, phase, cutA, cutB
vars == <<circ, out, phase, cutA, cutB>>

WireSets  == {S \in SUBSET Modes : Cardinality(S) \in {1, 2}}
CmdShapes == WireSets \X BOOLEAN
Circuits  == UNION {[1 .. n -> CmdShapes] : n \in 0 .. MaxLen}
Mk(f)     == [i \in DOMAIN f |-> [id |-> i, wires |-> f[i][1], marked |-> f[i][2]]]
Done      == Ids(out)

Init == /\ circ \in {Mk(f) : f \in Circuits} /\ out = << >> /\ phase = "A" /\ cutA = 0 /\ cutB = 0
EmitP(c) == /\ Ready(circ, Done, c)
            /\ (phase \in {"A", "C"}) => ~c.marked
            /\ out' = Append(out, c) /\ UNCHANGED <<circ, phase, cutA, cutB>>
Advance  == /\ phase = "A" /\ phase' = "B" /\ cutA' = Len(out) /\ UNCHANGED <<circ, out, cutB>>
            \/ /\ phase = "B" /\ phase' = "C" /\ cutB' = Len(out) - cutA /\ UNCHANGED <<circ, out, cutA>>
               \* B may be left only when no marked command remains, and C must be empty if B is
               /\ \A i \in DOMAIN circ : circ[i].marked => circ[i].id \in Done
               /\ (Len(out) = cutA => Len(out) = Len(circ))
Next == Advance \/ \E i \in DOMAIN circ : EmitP(circ[i])
Spec == Init /\ [][Next]_vars

\* soundness: whatever has been emitted keeps every dependent pair in order and is made of input commands
Sound         == OrderKept(circ, out) /\ DistinctIds(out) /\ Ids(out) \subseteq Ids(circ)
\* at completion in phase C the partition promise holds
Complete      == Len(out) = Len(circ)
PromiseKept   == (Complete /\ phase = "C") => Legal(circ, out) /\ PartitionOK(out, cutA, cutB)
\* completeness: every legal reordering is a behaviour of the scheduler (checked on the initial states:
\* each prefix of a legal permutation leaves its next command Ready)
Perms(c)      == {p \in [DOMAIN c -> DOMAIN c] : \A i, j \in DOMAIN c : i # j => p[i] # p[j]}
AllLegalReachable ==
   (out = << >> /\ phase = "A") =>
      \A p \in Perms(circ) :
         LET o == [i \in DOMAIN circ |-> circ[p[i]]] IN
         Legal(circ, o) => \A k \in 0 .. Len(circ) - 1 : Ready(circ, {o[i].id : i \in 1 .. k}, o[k + 1])
\* no deadlock before completion: some command is always ready (the dependency relation is acyclic)
Progress      == (~Complete) => \E i \in DOMAIN circ : Ready(circ, Done, circ[i])
=============================================================================
