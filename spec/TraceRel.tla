------------------------------- MODULE TraceRel -------------------------------
(***************************************************************************)
(* Direction B for C05 / C07: executions with ARBITRARY float parameters    *)
(* (off the lattice) validated against the relational content of the        *)
(* properties, which needs no exact values.  A case is one operation        *)
(* applied to a random entangled / displaced / mixed prior state; the       *)
(* harness records observations before and after, quantised to integers     *)
(* (x * 10^6; TLC has no reals):                                            *)
(*   spect  : first and second moments of all non-target modes (marginals   *)
(*            and their mutual correlations),                               *)
(*   nbar   : total mean photon number,  pur : purity,                      *)
(*   mineig : smallest eigenvalue of V + i Omega (phase space) or of rho,   *)
(*   trace, cls : "passive" | "active" (unitary) | "loss" | "prep" | "chan" | "meas",*)
(*   cross  : largest correlation between a prepared target and the rest,   *)
(*   q      : the tolerance quantum of this case (from the truncation slack).*)
(***************************************************************************)
EXTENDS Integers, Sequences, TLC, Json, IOUtils
Cases == JsonDeserialize(IOEnv.CASES_FILE)
VARIABLES tid, verdict
AbsI(x) == IF x < 0 THEN -x ELSE x
TargetsOnly(c)  == Len(c.before.spect) = Len(c.after.spect) /\ \A i \in DOMAIN c.before.spect : AbsI(c.after.spect[i] - c.before.spect[i]) <= c.q
Physical(c)     == c.after.mineig >= -c.q /\ c.after.trace <= 1000000 + c.q /\ c.after.sym <= c.q
\* a measurement ("meas") may change the other modes (conditional update) but leaves a normalised physical state with the measured
\* modes uncorrelated with the rest
Normalised(c)   == AbsI(c.after.trace - 1000000) <= c.q
Verdict(c) ==
   IF c.cls = "meas" THEN (IF ~Physical(c) THEN "Physical" ELSE IF ~Normalised(c) THEN "ConditionalStateNormalised"
                           ELSE IF c.after.cross > c.q THEN "PrepUncorrelated" ELSE "accepted")
   ELSE IF ~TargetsOnly(c) THEN "TargetsOnly"
   ELSE IF ~Physical(c) THEN "Physical"
   ELSE IF c.cls = "passive" /\ AbsI(c.after.nbar - c.before.nbar) > c.q THEN "PassiveKeepsPhotons"
   ELSE IF c.cls \in {"passive", "active"} /\ AbsI(c.after.pur - c.before.pur) > c.q THEN "UnitaryKeepsPurity"
   ELSE IF c.cls = "loss" /\ c.after.nbar > c.before.nbar + c.q THEN "LossNoGain"
   ELSE IF c.cls = "prep" /\ c.after.cross > c.q THEN "PrepUncorrelated"
   ELSE "accepted"
Init == tid \in DOMAIN Cases /\ verdict = Verdict(Cases[tid])
Next == UNCHANGED <<tid, verdict>>
Spec == Init /\ [][Next]_<<tid, verdict>>
Report == PrintT(ToJson([tid |-> tid, verdict |-> verdict]))
=============================================================================
