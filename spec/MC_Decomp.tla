------------------------------- MODULE MC_Decomp -------------------------------
(***************************************************************************)
(* C02 / C17: inputs with known exact meaning for the matrix-valued        *)
(* operations and decomposition routines.  A recipe is a sequence of       *)
(* lattice gates on NMd modes; its exact product is a unitary U (passive    *)
(* pool), a symplectic matrix S (active pool) or a covariance V = S N S^T  *)
(* (N = thermal noise per mode).  The family contains the identity,        *)
(* permutation-like matrices (beamsplitters at pi/2), exact zeros,         *)
(* block-diagonal matrices, repeated (degenerate) squeezing values and     *)
(* squeezing phases in all quadrants.                                      *)
(* Documented meaning: Interferometer(U): a -> U a; GaussianTransform(S):  *)
(* x -> S x; Gaussian(V, r): the state with exactly that V and r.  TLC     *)
(* checks U unitary, S symplectic, V physical and emits the exact state    *)
(* the operation must produce from the probe state.                        *)
(***************************************************************************)
EXTENDS Optimizer, TLC, Json
CONSTANTS NMd, Len0, Kind, EMIT
VARIABLES recipe, noise, cache
a345  == <<Q(3, 5), Q(4, 5)>>
a435  == <<Q(4, 5), Q(3, 5)>>
am345 == <<Q(-3, 5), Q(4, 5)>>
a3m45 == <<Q(3, 5), Q(-4, 5)>>
RECURSIVE CatP(_, _, _)
CatP(F(_), S, i) == IF i > Len(S) THEN << >> ELSE F(S[i]) \o CatP(F, S, i + 1)
ModesS == [i \in 1 .. NMd |-> i - 1]
PairsS == SelectSeq([i \in 1 .. NMd * NMd |-> <<(i - 1) \div NMd, (i - 1) % NMd>>], LAMBDA pr : pr[1] < pr[2])
Pas1(m)  == << Op("Rgate", <<a345>>, <<m>>), Op("Rgate", <<APi>>, <<m>>) >>
Pas2(pr) == << Op("BSgate", <<a345, APi2>>, pr), Op("BSgate", <<APi2, A0>>, pr), Op("BSgate", <<a435, a3m45>>, <<pr[2], pr[1]>>),
               Op("MZgate", <<a345, a435>>, pr) >>
Act1(m)  == << Op("Sgate", <<Q(4, 3), A0>>, <<m>>), Op("Sgate", <<Q(4, 3), am345>>, <<m>>), Op("Sgate", <<Q(3, 2), a3m45>>, <<m>>),
               Op("Sgate", <<Q(3, 4), APi>>, <<m>>) >>
Act2(pr) == << Op("S2gate", <<Q(4, 3), a345>>, pr) >>
PassivePool == CatP(Pas1, ModesS, 1) \o CatP(Pas2, PairsS, 1)
ActivePool  == PassivePool \o CatP(Act1, ModesS, 1) \o CatP(Act2, PairsS, 1)
\* permutation-like unitaries: adjacent swaps (beamsplitters at pi/2) with a few phases -> cyclic shifts, unit-vector columns
PermPool == [i \in 1 .. NMd - 1 |-> Op("BSgate", <<APi2, A0>>, <<i - 1, i>>)] \o << Op("Rgate", <<a345>>, <<0>>), Op("Rgate", <<APi2>>, <<NMd - 1>>),
                                                                                        Op("Rgate", <<APi>>, <<1>>) >>     \* (a reflection: real, determinant -1)
Pool == IF Kind = "unitary" THEN PassivePool ELSE IF Kind = "perm" THEN PermPool ELSE ActivePool
Init == /\ \E n \in 0 .. Len0 : \E f \in [1 .. n -> 1 .. Len(Pool)] : recipe = [i \in 1 .. n |-> Pool[f[i]]]
        /\ noise \in (IF Kind = "cov" THEN 0 .. 2 ELSE {0})
Next == UNCHANGED <<recipe, noise, cache>>

\* exact product of the recipe: symplectic matrix over modes 0 .. NMd-1, and (passive) the complex unitary
IdState   == [modes |-> ModesS, mu |-> ZeroV(2 * NMd), V |-> IdM(2 * NMd)]
\* (left multiplication only is needed: reuse the W-part of ApplySymp through a matrix whose columns are tracked as a "covariance")
LeftOnly(S, ms, G) ==
  LET n == 2 * NMd  t2 == 2 * Len(ms)
      idx == [a \in 1 .. t2 |-> IF a <= Len(ms) THEN ms[a] + 1 ELSE NMd + ms[a - Len(ms)] + 1]
      loc == [i \in 1 .. n |-> IF \E a \in 1 .. t2 : idx[a] = i THEN CHOOSE a \in 1 .. t2 : idx[a] = i ELSE 0]
  IN  [i \in 1 .. n |-> IF loc[i] = 0 THEN S[i] ELSE [j \in 1 .. n |-> Dot(G[loc[i]], [b \in 1 .. t2 |-> S[idx[b]][j]])]]
RECURSIVE ProdFrom(_, _)
ProdFrom(S, i) == IF i > Len(recipe) THEN S ELSE ProdFrom(LeftOnly(S, recipe[i].modes, SympOf(recipe[i])), i + 1)
SNetRaw == ProdFrom(IdM(2 * NMd), 1)
SNet == cache.S
\* passive symplectic [[X, -Y], [Y, X]]  ->  U = X + iY
UNet == [i \in 1 .. NMd |-> [j \in 1 .. NMd |-> <<SNet[i][j], SNet[NMd + i][j]>>]]
NoiseId  == noise                                              \* 0: pure, 1: thermal on mode 0, 2: thermal on all modes
Noise    == [i \in 1 .. 2 * NMd |-> [j \in 1 .. 2 * NMd |->
               IF i # j THEN Zero
               ELSE IF NoiseId = 0 THEN One
               ELSE IF NoiseId = 1 THEN (IF i = 1 \/ i = NMd + 1 THEN Two ELSE One) ELSE Q(3, 2)]]
VNetRaw  == MatMul(MatMul(SNetRaw, Noise), Transpose(SNetRaw))
VNet     == cache.V
RDisp    == [i \in 1 .. 2 * NMd |-> IF Len(recipe) % 2 = 0 THEN Zero ELSE Q((i % 3) - 1, 2)]
SympOK   == IsSymplectic(SNet)
UnitaryOK == Kind \in {"unitary", "perm"} => (SNet = FromUC(UNet))
CovOK    == Kind = "cov" => (IsSymmetric(VNet) /\ RLe(One, Det(VNet)))
ProbeSt  == ProbeState(NMd)
Expected == CASE Kind \in {"unitary", "perm"} -> ApplySymp(ProbeSt, ModesS, SNet)
              [] Kind = "symplectic" -> ApplySymp(ProbeSt, ModesS, SNet)
              [] Kind = "cov"        -> [modes |-> ModesS, mu |-> RDisp, V |-> VNet]
VOut == IF Kind = "cov" THEN VNet ELSE IdM(2 * NMd)
\* the products are computed once per recipe and carried in a variable
Init0 == Init /\ cache = [S |-> SNetRaw, V |-> IF Kind = "cov" THEN VNetRaw ELSE << >>]
EmitInv == EMIT => PrintT(ToJson([kind |-> IF Kind = "perm" THEN "unitary" ELSE Kind, n |-> NMd, noise |-> noise, recipe |-> recipe, S |-> SNet, U |-> UNet, V |-> VOut, r |-> RDisp,
                                   prefix |-> ProbeOps(NMd), st |-> Expected]))
Spec == Init0 /\ [][Next]_<<recipe, noise, cache>>
=============================================================================
