------------------------------- MODULE MC_Reg -------------------------------
(***************************************************************************)
(* C08: register and simulator agree on which modes exist, for every       *)
(* history of creation, deletion, use and measurement spread over          *)
(* successive program segments on one engine.                              *)
(*                                                                         *)
(* State: reg[i] for every index ever created (TRUE = active) -- the       *)
(* program register; sim = the simulator's exact state over its active     *)
(* modes (PhaseSpace record: modes are external indices, ascending); every *)
(* mode is tagged at creation by a distinct displacement so that "carrying *)
(* its own data" is observable.  One action per front-end step; illegal    *)
(* uses are error steps that leave everything unchanged (RejectedNotActed). *)
(***************************************************************************)
EXTENDS Ops, TLC, Json, SequencesExt

CONSTANTS N0,        \* modes of the first program
          MaxIdx,    \* indices 0 .. MaxIdx-1 may ever exist
          Depth,     \* number of actions
          EMIT

VARIABLES hist,      \* actions so far (records)
          reg,       \* sequence over created indices (1-based: reg[i+1] for index i) of BOOLEAN
          sim,       \* exact simulator state over the active modes
          nseg,      \* completed segments since the last reset
          fresh      \* TRUE right after Init / Reset / Seg (current program has no commands yet)
vars == <<hist, reg, sim, nseg, fresh>>

a345 == <<Q(3, 5), Q(4, 5)>>
K    == One
Created     == Len(reg)
Active      == {i \in 0 .. Created - 1 : reg[i + 1]}
ActiveSeq   == SelectSeq([i \in 1 .. Created |-> i - 1], LAMBDA x : reg[x + 1])
TagOp(i)    == Op("Xgate", <<Q(i + 1, 4)>>, <<i>>)

\* first program: tags, then an entangling two-mode squeezer on (0, 1) when there are two modes
InitOps     == [i \in 1 .. N0 |-> TagOp(i - 1)] \o
               (IF N0 >= 2 THEN << Op("S2gate", <<Q(4, 3), A0>>, <<0, 1>>) >> ELSE << >>)
Act(kind, ms)  == [a |-> kind, modes |-> ms]
Push(kind, ms) == hist' = Append(hist, Act(kind, ms))

Init == /\ hist = << >>
        /\ reg = [i \in 1 .. N0 |-> TRUE]
        /\ sim = ApplySeq(VacuumN(N0), InitOps, K)
        /\ nseg = 0 /\ fresh = TRUE

\* the initial tagging is part of the first program; the harness emits it at program start
NewT(k) == /\ Created + k <= MaxIdx
           /\ LET new == [j \in 1 .. k |-> Created + j - 1] IN
              /\ Push("New", new)
              /\ reg' = reg \o [j \in 1 .. k |-> TRUE]
              /\ sim' = ApplySeq(ApplySeq(sim, [j \in 1 .. k |-> Op("New", <<>>, <<new[j]>>)], K),
                                 [j \in 1 .. k |-> TagOp(new[j])], K)
           /\ fresh' = FALSE /\ UNCHANGED nseg

DelA(ms) == /\ \A j \in 1 .. Len(ms) : ms[j] \in Active
            /\ Push("Del", ms)
            /\ reg' = [i \in 1 .. Created |-> IF (i - 1) \in SeqToSet(ms) THEN FALSE ELSE reg[i]]
            /\ sim' = ApplySeq(sim, [j \in 1 .. Len(ms) |-> Op("Del", <<>>, <<ms[j]>>)], K)
            /\ fresh' = FALSE /\ UNCHANGED nseg

RotA(m) == /\ m \in Active /\ Push("Rgate", <<m>>)
           /\ sim' = Apply(sim, Op("Rgate", <<a345>>, <<m>>), K)
           /\ fresh' = FALSE /\ UNCHANGED <<reg, nseg>>

MixA(m1, m2) == /\ m1 \in Active /\ m2 \in Active /\ m1 # m2 /\ Push("BSgate", <<m1, m2>>)
                /\ sim' = Apply(sim, Op("BSgate", <<a345, APi2>>, <<m1, m2>>), K)
                /\ fresh' = FALSE /\ UNCHANGED <<reg, nseg>>

MeasA(m) == /\ m \in Active /\ Push("Measure", <<m>>)
            /\ sim' = Apply(sim, Op("MeasureHomodyne", <<A0, Q(1, 2)>>, <<m>>), K)
            /\ fresh' = FALSE /\ UNCHANGED <<reg, nseg>>

\* segment boundary: the current program is run, a successor program continues the register
Seg == /\ ~fresh /\ Push("Seg", << >>) /\ nseg' = nseg + 1 /\ fresh' = TRUE /\ UNCHANGED <<reg, sim>>

\* a *fresh* program of n modes offered as the next segment (Program(n), not Program(prev)): the engine must
\* accept it only if the whole register -- every index ever created, dead or alive -- is that of the previous
\* program (Program.can_follow); otherwise "Register mismatch" and nothing changes.
FreshOK(n) == Len(reg) = n /\ \A i \in 1 .. n : reg[i]
FreshSeg(n) == /\ fresh /\ nseg > 0 /\ n \in 1 .. MaxIdx
               /\ Push(IF FreshOK(n) THEN "FreshOk" ELSE "FreshRejected", <<n>>)
               /\ UNCHANGED <<reg, sim, nseg, fresh>>

\* engine reset: simulator and run history cleared; a new first program of N0 modes (untagged)
Reset == /\ nseg > 0 /\ fresh /\ Push("Reset", << >>)
         /\ reg' = [i \in 1 .. N0 |-> TRUE] /\ sim' = VacuumN(N0) /\ nseg' = 0 /\ fresh' = TRUE

\* illegal uses: rejected, nothing acted on
\* (stuttering steps: they are not recorded in hist; the harness attempts every one of them at every
\* reached state, through the front end and directly on the simulator API, and demands rejection)
BadUse(m) == /\ m \in 0 .. MaxIdx - 1 /\ m \notin Active /\ UNCHANGED vars
BadDel(m) == /\ m \in 0 .. Created - 1 /\ m \notin Active /\ UNCHANGED vars

Pairs(S) == {<<x, y>> \in S \X S : x # y}
Next == /\ Len(hist) < Depth
        /\ \/ \E k \in 1 .. 2 : NewT(k)
           \/ \E m \in Active : DelA(<<m>>) \/ RotA(m) \/ MeasA(m)
           \/ \E pr \in Pairs(Active) : MixA(pr[1], pr[2]) \/ (pr[1] < pr[2] /\ DelA(<<pr[1], pr[2]>>))
           \/ Seg \/ Reset
           \/ (\E n \in {Cardinality(Active)} : n > 0 /\ Len(hist) > 0 /\ hist[Len(hist)].a = "Seg" /\ FreshSeg(n))
           \/ \E m \in 0 .. MaxIdx - 1 : BadUse(m) \/ BadDel(m)
Spec == Init /\ [][Next]_vars

\* ---- invariants (design level) ---------------------------------------------------------------
RegisterAgreement == sim.modes = ActiveSeq                  \* same set, index order
LastA             == hist'[Len(hist')].a
IndexForLife      == [][hist' # hist => (Len(reg') >= Len(reg) \/ LastA = "Reset")]_vars
NoResurrection    == [][(hist' # hist /\ LastA # "Reset") =>
                          \A i \in 1 .. Len(reg) : ~reg[i] => ~reg'[i]]_vars
RejectedNotActed  == [][(\E m \in 0 .. MaxIdx - 1 : BadUse(m) \/ BadDel(m)) => sim' = sim /\ reg' = reg]_vars
Inactive          == (0 .. MaxIdx - 1) \ Active
StatePhysical     == Symmetric(sim)
\* a tag never moves unless a gate moves it: the x-mean of an untouched mode is its tag
EmitInv == EMIT => PrintT(ToJson([hist |-> hist, reg |-> reg, st |-> sim, nseg |-> nseg, init |-> InitOps,
                                   inactive |-> SetToSeq(Inactive)]))
=============================================================================
