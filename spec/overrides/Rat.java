/*
 * TLC module override for Rat.tla: the same operators evaluated with java.math.BigInteger.
 *
 * Rat.tla defines exact rationals as normalised pairs <<num, den>> of TLC integers; TLC integers are
 * 32-bit and TLC raises on overflow.  This override extends the *same* operators to arbitrary precision:
 * a component that does not fit in 32 bits is carried as a decimal string.  The representation stays
 * canonical (a component is an integer value iff it fits), so structural equality remains equality of
 * rationals.  On values that fit in 32 bits the override and the TLA+ definitions agree; `check --selftest`
 * runs the Rat self-test model with and without this class on the classpath and compares.
 */
import java.math.BigInteger;
import tlc2.value.impl.BoolValue;
import tlc2.value.impl.IntValue;
import tlc2.value.impl.StringValue;
import tlc2.value.impl.TupleValue;
import tlc2.value.impl.Value;

public class Rat {
    private static final BigInteger MAXI = BigInteger.valueOf(Integer.MAX_VALUE);
    private static final BigInteger MINI = BigInteger.valueOf(Integer.MIN_VALUE);

    private static BigInteger big(Value v) {
        if (v instanceof IntValue) return BigInteger.valueOf(((IntValue) v).val);
        if (v instanceof StringValue) return new BigInteger(((StringValue) v).val.toString());
        throw new RuntimeException("Rat override: not a rational component: " + v);
    }
    private static Value small(BigInteger b) {
        if (b.compareTo(MAXI) <= 0 && b.compareTo(MINI) > 0) return IntValue.gen(b.intValue());
        return new StringValue(b.toString());
    }
    private static BigInteger[] rat(Value v) {
        TupleValue t = (TupleValue) v.toTuple();
        if (t == null || t.elems.length != 2) throw new RuntimeException("Rat override: not a rational: " + v);
        return new BigInteger[] { big(t.elems[0]), big(t.elems[1]) };
    }
    private static Value mk(BigInteger n, BigInteger d) {
        if (d.signum() == 0) throw new RuntimeException("Rat override: division by zero");
        if (n.signum() == 0) return new TupleValue(IntValue.gen(0), IntValue.gen(1));
        if (d.signum() < 0) { n = n.negate(); d = d.negate(); }
        BigInteger g = n.gcd(d);
        if (!g.equals(BigInteger.ONE)) { n = n.divide(g); d = d.divide(g); }
        return new TupleValue(small(n), small(d));
    }
    public static Value Norm(Value n, Value d) { return mk(big(n), big(d)); }
    public static Value RNeg(Value a) { BigInteger[] x = rat(a); return mk(x[0].negate(), x[1]); }
    public static Value RAdd(Value a, Value b) {
        BigInteger[] x = rat(a), y = rat(b);
        return mk(x[0].multiply(y[1]).add(y[0].multiply(x[1])), x[1].multiply(y[1]));
    }
    public static Value RSub(Value a, Value b) {
        BigInteger[] x = rat(a), y = rat(b);
        return mk(x[0].multiply(y[1]).subtract(y[0].multiply(x[1])), x[1].multiply(y[1]));
    }
    public static Value RMul(Value a, Value b) {
        BigInteger[] x = rat(a), y = rat(b);
        return mk(x[0].multiply(y[0]), x[1].multiply(y[1]));
    }
    public static Value RInv(Value a) { BigInteger[] x = rat(a); return mk(x[1], x[0]); }
    public static Value RDiv(Value a, Value b) {
        BigInteger[] x = rat(a), y = rat(b);
        return mk(x[0].multiply(y[1]), x[1].multiply(y[0]));
    }
    public static Value RSq(Value a) { BigInteger[] x = rat(a); return mk(x[0].multiply(x[0]), x[1].multiply(x[1])); }
    private static int cmp(Value a, Value b) {
        BigInteger[] x = rat(a), y = rat(b);
        return x[0].multiply(y[1]).compareTo(y[0].multiply(x[1]));
    }
    public static Value RLe(Value a, Value b) { return cmp(a, b) <= 0 ? BoolValue.ValTrue : BoolValue.ValFalse; }
    public static Value RLt(Value a, Value b) { return cmp(a, b) < 0 ? BoolValue.ValTrue : BoolValue.ValFalse; }
    public static Value RSign(Value a) { return IntValue.gen(rat(a)[0].signum()); }
    public static Value RIsZero(Value a) { return rat(a)[0].signum() == 0 ? BoolValue.ValTrue : BoolValue.ValFalse; }
    public static Value RModP(Value a, Value p) {
        BigInteger[] x = rat(a);
        BigInteger P = big(p);
        return IntValue.gen(x[0].mod(P).multiply(x[1].mod(P).modInverse(P)).mod(P).intValue());
    }
    public static Value Dot(Value u, Value v) {
        TupleValue a = (TupleValue) u.toTuple(), b = (TupleValue) v.toTuple();
        BigInteger n = BigInteger.ZERO, d = BigInteger.ONE;
        for (int i = 0; i < a.elems.length; i++) {
            BigInteger[] x = rat(a.elems[i]), y = rat(b.elems[i]);
            BigInteger pn = x[0].multiply(y[0]), pd = x[1].multiply(y[1]);
            if (pn.signum() == 0) continue;
            n = n.multiply(pd).add(pn.multiply(d));
            d = d.multiply(pd);
            BigInteger g = n.gcd(d);
            if (!g.equals(BigInteger.ONE) && g.signum() != 0) { n = n.divide(g); d = d.divide(g); }
        }
        return mk(n, d);
    }
}
