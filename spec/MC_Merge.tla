------------------------------- MODULE MC_Merge -------------------------------
(***************************************************************************)
(* C11: the net action of a Gaussian circuit, as the Gaussian-merging      *)
(* compilers must return it.  Source circuits act on a SUBSET of a large   *)
(* register (all 2-subsets / 3-subsets of 0 .. RegSize-1: non-contiguous   *)
(* sets, sets whose hash order differs from numeric order, indices >= 9),  *)
(* with and without inverse flags.                                         *)
(* NetSymp / NetDisp: x -> S x + d with S the ordered product of the       *)
(* operations' symplectic matrices (Ops.SympOf: inverse flags honoured) on *)
(* exactly the used modes, rows/columns in ascending mode order, xxpp.     *)
(* NetTransfer: the k x k complex transfer matrix a -> T a of a passive    *)
(* (possibly lossy) circuit.                                               *)
(* TLC checks: NetSymp is symplectic, agrees with the state semantics      *)
(* (PhaseSpace) on a probe, T T^dagger <= 1 (no gain) and, for lossless    *)
(* circuits, T unitary and consistent with NetSymp.                        *)
(***************************************************************************)
EXTENDS Ops, TLC, Json, FiniteSetsExt, SequencesExt
CONSTANTS RegSize, SubsetSize, Len0, TargetId, SubsetFilter, EMIT
VARIABLES used, circ, cache
a345  == <<Q(3, 5), Q(4, 5)>>
a435  == <<Q(4, 5), Q(3, 5)>>
am345 == <<Q(-3, 5), Q(4, 5)>>
K == One
CDot2(u, v) == LET RECURSIVE F(_) F(i) == IF i > Len(u) THEN CZero ELSE CAdd(CMul(u[i], v[i]), F(i + 1)) IN F(1)
\* explicit matrices for GaussianTransform / Interferometer source operations: exact products of lattice gates
EmbedM(G, loc, n) == LET t == Len(loc)
                         idx == [a \in 1 .. 2 * t |-> IF a <= t THEN loc[a] ELSE n + loc[a - t]]
                         l(i) == IF \E a \in 1 .. 2 * t : idx[a] = i THEN CHOOSE a \in 1 .. 2 * t : idx[a] = i ELSE 0
                     IN  [i \in 1 .. 2 * n |-> [j \in 1 .. 2 * n |-> IF l(i) = 0 \/ l(j) = 0 THEN (IF i = j THEN One ELSE Zero) ELSE G[l(i)][l(j)]]]
GT2 == MatMul(S2(Q(4, 3), A0), BS(a345, APi2))
GT3 == MatMul(MatMul(EmbedM(BS(a345, APi2), <<1, 2>>, 3), EmbedM(S2(Q(4, 3), a435), <<3, 2>>, 3)), EmbedM(Sq(Q(3, 2), a345), <<1>>, 3))
CEmbed(U, loc, n) == [i \in 1 .. n |-> [j \in 1 .. n |->
                        IF (\E a \in 1 .. Len(loc) : loc[a] = i) /\ (\E b \in 1 .. Len(loc) : loc[b] = j)
                        THEN U[CHOOSE a \in 1 .. Len(loc) : loc[a] = i][CHOOSE b \in 1 .. Len(loc) : loc[b] = j]
                        ELSE IF i = j THEN COne ELSE CZero]]
CMatMul(A, B) == [i \in 1 .. Len(A) |-> [j \in 1 .. Len(B[1]) |-> CDot2(A[i], [c \in 1 .. Len(B) |-> B[c][j]])]]
U3 == CMatMul(CEmbed(BSU(a345, APi2), <<1, 3>>, 3), CEmbed(MZU(a435, a345), <<2, 3>>, 3))
\* the pool is written for three abstract slots x, y, z, instantiated by the chosen subset
PoolGU(x, y, z) == << Op("Rgate", <<a345>>, <<x>>), OpH("Rgate", <<a435>>, <<y>>), Op("Sgate", <<Q(4, 3), APi2>>, <<y>>),
                      OpH("Sgate", <<Q(3, 2), a345>>, <<x>>), Op("Dgate", <<Q(1, 2), a345>>, <<x>>), OpH("Dgate", <<Q(1, 4), APi2>>, <<z>>),
                      Op("BSgate", <<a345, APi2>>, <<x, y>>), Op("BSgate", <<a435, A0>>, <<z, x>>), OpH("BSgate", <<a345, am345>>, <<y, z>>),
                      Op("S2gate", <<Q(4, 3), A0>>, <<y, x>>), OpH("S2gate", <<Q(3, 2), a345>>, <<x, z>>),
                      Op("MZgate", <<a345, a435>>, <<x, y>>), OpH("MZgate", <<APi2, a345>>, <<z, y>>),
                      Op("GaussianTransform", <<GT2>>, <<y, x>>), Op("GaussianTransform", <<GT3>>, <<z, x, y>>),
                      Op("Interferometer", <<U3>>, <<y, z, x>>) >>
PoolPassive(x, y, z) == << Op("Rgate", <<a345>>, <<x>>), OpH("Rgate", <<a435>>, <<y>>), Op("LossChannel", <<Q(4, 5)>>, <<y>>),
                           Op("LossChannel", <<Q(3, 5)>>, <<z>>), Op("BSgate", <<a345, APi2>>, <<x, y>>), Op("BSgate", <<a435, A0>>, <<z, x>>),
                           OpH("BSgate", <<a345, am345>>, <<y, z>>), Op("MZgate", <<a345, a435>>, <<x, y>>), OpH("MZgate", <<APi2, a345>>, <<z, y>>),
                           Op("Interferometer", <<U3>>, <<y, z, x>>) >>
UsedSeq == SetToSortSeq(used, <)
Slot(i) == UsedSeq[((i - 1) % Len(UsedSeq)) + 1]
Pool    == IF TargetId = "passive" THEN PoolPassive(Slot(1), Slot(2), Slot(3)) ELSE PoolGU(Slot(1), Slot(2), Slot(3))
Valid(op) == \A i, j \in DOMAIN op.modes : i # j => op.modes[i] # op.modes[j]
\* "all": every subset of the given size; "few": a fixed selection with non-contiguous sets, sets whose hash order differs from
\* numeric order and indices >= 8 (the on-every-change tier)
FewSubsets == IF SubsetSize = 2 THEN {{0, 1}, {0, 8}, {1, 8}, {8, 9}, {2, 5}, {3, 9}} ELSE {{0, 1, 2}, {1, 8, 9}, {0, 3, 8}, {2, 5, 9}}
Init == /\ used \in {S \in (IF SubsetFilter = "few" THEN FewSubsets ELSE SUBSET (0 .. RegSize - 1)) :
                          Cardinality(S) = SubsetSize /\ S \subseteq 0 .. RegSize - 1}
        /\ \E f \in [1 .. Len0 -> 1 .. Len(Pool)] :
              circ = [i \in 1 .. Len0 |-> Pool[f[i]]] /\ \A i \in 1 .. Len0 : Valid(Pool[f[i]])
Next == UNCHANGED <<used, circ, cache>>

\* ---- net symplectic action -------------------------------------------------------------------------------
Touched   == UNION {SeqToSet(circ[i].modes) : i \in DOMAIN circ}
TSeq      == SetToSortSeq(Touched, <)
k         == Len(TSeq)
PosT(m)   == CHOOSE i \in 1 .. k : TSeq[i] = m
\* left-multiply the accumulated S (2k x 2k) and d by the embedded local matrix G on targets ms
LeftMul(S, d, ms, G) ==
  LET t == Len(ms)
      idx == [a \in 1 .. 2 * t |-> IF a <= t THEN PosT(ms[a]) ELSE k + PosT(ms[a - t])]
      loc(i) == IF \E a \in 1 .. 2 * t : idx[a] = i THEN CHOOSE a \in 1 .. 2 * t : idx[a] = i ELSE 0
  IN  [S |-> [i \in 1 .. 2 * k |-> IF loc(i) = 0 THEN S[i]
                  ELSE [j \in 1 .. 2 * k |-> Dot(G[loc(i)], [b \in 1 .. 2 * t |-> S[idx[b]][j]])]],
       d |-> [i \in 1 .. 2 * k |-> IF loc(i) = 0 THEN d[i] ELSE Dot(G[loc(i)], [b \in 1 .. 2 * t |-> d[idx[b]]])]]
RECURSIVE NetFrom(_, _)
NetFrom(acc, i) ==
  IF i > Len(circ) THEN acc
  ELSE LET op == circ[i] IN
       IF op.name \in DispNames
       THEN LET dd == DispOf(op, K)  p == PosT(op.modes[1]) IN
            NetFrom([S |-> acc.S, d |-> [j \in 1 .. 2 * k |-> IF j = p THEN RAdd(acc.d[j], dd[1])
                                                             ELSE IF j = p + k THEN RAdd(acc.d[j], dd[2]) ELSE acc.d[j]]], i + 1)
       ELSE IF op.name \in ChanNames THEN NetFrom(acc, i + 1)
       ELSE NetFrom(LeftMul(acc.S, acc.d, op.modes, SympOf(op)), i + 1)
NetRaw == NetFrom([S |-> IdM(2 * k), d |-> ZeroV(2 * k)], 1)
Net == cache.net
AllUnitary == \A i \in DOMAIN circ : circ[i].name \notin ChanNames
NetIsSymplectic == AllUnitary => IsSymplectic(Net.S)
\* the net action reproduces the state semantics: vacuum -> (d, S S^T)
NetMatchesState == AllUnitary =>
   LET st == cache.st IN st.mu = Net.d /\ st.V = MatMul(Net.S, Transpose(Net.S))

\* ---- net transfer matrix of a passive circuit ---------------------------------------------------------------
CIdM(n)  == [i \in 1 .. n |-> [j \in 1 .. n |-> IF i = j THEN COne ELSE CZero]]
LocalU(op) == CASE op.name = "Rgate" -> << << IF op.dag THEN CConj(op.p[1]) ELSE op.p[1] >> >>
                [] op.name = "LossChannel" -> << << <<op.p[1], Zero>> >> >>
                [] op.name = "BSgate" -> IF op.dag THEN [i \in 1 .. 2 |-> [j \in 1 .. 2 |-> CConj(BSU(op.p[1], op.p[2])[j][i])]] ELSE BSU(op.p[1], op.p[2])
                [] op.name = "MZgate" -> IF op.dag THEN [i \in 1 .. 2 |-> [j \in 1 .. 2 |-> CConj(MZU(op.p[1], op.p[2])[j][i])]] ELSE MZU(op.p[1], op.p[2])
                [] op.name = "Interferometer" -> op.p[1]
RECURSIVE TransferFrom(_, _)
TransferFrom(Tm, i) ==
  IF i > Len(circ) THEN Tm
  ELSE LET op == circ[i]  U == LocalU(op)  t == Len(op.modes)
           idx == [a \in 1 .. t |-> PosT(op.modes[a])]
           loc(r) == IF \E a \in 1 .. t : idx[a] = r THEN CHOOSE a \in 1 .. t : idx[a] = r ELSE 0
       IN  TransferFrom([r \in 1 .. k |-> IF loc(r) = 0 THEN Tm[r]
                           ELSE [c \in 1 .. k |-> CDot2(U[loc(r)], [b \in 1 .. t |-> Tm[idx[b]][c]])]], i + 1)
NetTransferRaw == TransferFrom(CIdM(k), 1)
NetTransfer == cache.T
\* the derived objects are computed once per circuit and carried in a variable
Init0 == Init /\ cache = [net |-> NetRaw, T |-> IF TargetId = "passive" THEN NetTransferRaw ELSE << >>,
                           st |-> ApplySeq(Vacuum(TSeq), circ, K)]
TransferUnitaryIfLossless ==
   (TargetId = "passive" /\ AllUnitary) =>
      LET Tm == NetTransfer IN
      \A i, j \in 1 .. k : CDot2(Tm[i], [c \in 1 .. k |-> CConj(Tm[j][c])]) = (IF i = j THEN COne ELSE CZero)
TransferMatchesSymp ==
   (TargetId = "passive" /\ AllUnitary) =>
      Net.S = FromUC(NetTransfer)
EmitInv == EMIT => PrintT(ToJson([circ |-> circ, used |-> TSeq, S |-> Net.S, d |-> Net.d,
                                   T |-> cache.T, st |-> cache.st]))
Spec == Init0 /\ [][Next]_<<used, circ, cache>>
=============================================================================
