------------------------------- MODULE MC_Hbar -------------------------------
(***************************************************************************)
(* C15 by self-composition: the same program is run at two values of hbar  *)
(* (k1 = sqrt(hbar1/2), k2 = sqrt(hbar2/2)); the parameters that carry     *)
(* units of position / momentum (Xgate, Zgate, the homodyne post-selection *)
(* value) are rescaled by k2/k1 as documented.  Theorem (TLC): the hbar-   *)
(* free internal states coincide after every operation, hence every        *)
(* dimensionless prediction coincides, quadrature means scale by k2/k1 and *)
(* covariances by (k2/k1)^2.  The behaviours are replayed at both hbar     *)
(* values on every simulator.                                              *)
(***************************************************************************)
EXTENDS MC_Gauss
CONSTANTS K2Num, K2Den
VARIABLES hist2, st2
vars2 == <<hist, st, hist2, st2>>
K2 == Q(K2Num, K2Den)
Ratio == RDiv(K2, K)
Rescale(op) == CASE op.name \in {"Xgate", "Zgate"} -> [op EXCEPT !.p = <<RMul(op.p[1], Ratio)>>]
                 [] op.name = "MeasureHomodyne" -> [op EXCEPT !.p = <<op.p[1], RMul(op.p[2], Ratio)>>]
                 [] OTHER -> op
OneK(m) == << Op("Xgate", <<Q(1, 2)>>, <<m>>), OpH("Xgate", <<Q(3, 4)>>, <<m>>), Op("Zgate", <<Q(-1, 2)>>, <<m>>),
              Op("Dgate", <<Q(1, 2), a345>>, <<m>>), Op("Sgate", <<Q(4, 3), a345>>, <<m>>), Op("Pgate", <<Q(1, 2)>>, <<m>>),
              Op("Rgate", <<a435>>, <<m>>), Op("LossChannel", <<Q(4, 5)>>, <<m>>), Op("Coherent", <<Q(1, 2), am345>>, <<m>>),
              Op("Squeezed", <<Q(3, 4), APi2>>, <<m>>), Op("Thermal", <<Q(1, 4)>>, <<m>>),
              Op("MeasureHomodyne", <<A0, Q(1, 2)>>, <<m>>), Op("MeasureHomodyne", <<a345, Q(-1, 4)>>, <<m>>) >>
TwoK(pr) == << Op("BSgate", <<a345, APi2>>, pr), Op("S2gate", <<Q(4, 3), a435>>, pr), Op("CXgate", <<Q(1, 2)>>, pr),
               Op("CZgate", <<Q(-1, 2)>>, pr) >>
AlphabetK == Cat(OneK, Modes, 1) \o Cat(TwoK, Pairs, 1)
PrefixK == IF N = 1 THEN << Op("Sgate", <<Q(4, 3), a345>>, <<0>>), Op("Xgate", <<Q(1, 2)>>, <<0>>), Op("Zgate", <<Q(1, 4)>>, <<0>>) >>
           ELSE << Op("S2gate", <<Q(4, 3), A0>>, <<0, 1>>), Op("Xgate", <<Q(1, 2)>>, <<0>>), Op("Zgate", <<Q(1, 4)>>, <<1>>) >>
RescaleSeq(s) == [i \in DOMAIN s |-> Rescale(s[i])]

InitH == /\ hist = PrefixK /\ st = ApplySeq(VacuumN(N), PrefixK, K)
         /\ hist2 = RescaleSeq(PrefixK) /\ st2 = ApplySeq(VacuumN(N), RescaleSeq(PrefixK), K2)
StepH(op) == /\ Len(hist) - Len(PrefixK) < Depth
             /\ hist' = Append(hist, op) /\ st' = Apply(st, op, K)
             /\ hist2' = Append(hist2, Rescale(op)) /\ st2' = Apply(st2, Rescale(op), K2)
NextH == \E i \in 1 .. Len(AlphabetK) : StepH(AlphabetK[i])
SpecH == InitH /\ [][NextH]_vars2
HbarFree == st = st2                         \* the theorem
EmitH == EMIT => PrintT(ToJson([hist |-> hist, hist2 |-> hist2, st |-> st]))
=============================================================================
