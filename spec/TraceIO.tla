------------------------------- MODULE TraceIO -------------------------------
(* C14: judging recorded save/load round trips.  A case holds the abstract original program and the abstract program
   projected from what was loaded back (commands = [name, p, modes, dag, sel, dark] with canonical parameter strings),
   the matching perm found by the harness (loaded[k] claims to be orig[perm[k]]) and the program-level metadata of both.
   SaveLoad must be a stuttering step on the abstract program up to a legal reordering (CircuitOrder.Legal).          *)
EXTENDS CircuitOrder, TLC, Json, IOUtils
Cases == JsonDeserialize(IOEnv.CASES_FILE)
VARIABLES tid, verdict
AbsC(c) == [k \in DOMAIN c |-> [id |-> k, wires |-> Range(c[k].modes) \cup Range(c[k].deps), marked |-> FALSE]]
Verdict(c) ==
   IF Len(c.loaded) # Len(c.orig) THEN "CommandCountDiffers"
   ELSE IF ~(/\ Len(c.perm) = Len(c.orig)
             /\ \A k \in DOMAIN c.perm : c.perm[k] \in DOMAIN c.orig
             /\ \A k, l \in DOMAIN c.perm : k # l => c.perm[k] # c.perm[l]) THEN "NotTheSameCommands"
   ELSE IF \E k \in DOMAIN c.loaded : c.loaded[k].name # c.orig[c.perm[k]].name THEN "OperationDiffers"
   ELSE IF \E k \in DOMAIN c.loaded : c.loaded[k].modes # c.orig[c.perm[k]].modes THEN "ModesDiffer"
   ELSE IF \E k \in DOMAIN c.loaded : c.loaded[k].dag # c.orig[c.perm[k]].dag THEN "InverseFlagLost"
   ELSE IF \E k \in DOMAIN c.loaded : c.loaded[k].p # c.orig[c.perm[k]].p THEN "ParametersDiffer"
   ELSE IF \E k \in DOMAIN c.loaded : c.loaded[k].sel # c.orig[c.perm[k]].sel \/ c.loaded[k].dark # c.orig[c.perm[k]].dark
        THEN "MeasurementOptionsDiffer"
   ELSE IF LET a == AbsC(c.orig) IN ~Legal(a, [k \in DOMAIN c.perm |-> a[c.perm[k]]]) THEN "OrderNotCompatible"
   ELSE IF c.meta_loaded # c.meta_orig THEN "ProgramOptionsDiffer"
   ELSE "accepted"
Init == tid \in DOMAIN Cases /\ verdict = Verdict(Cases[tid])
Next == UNCHANGED <<tid, verdict>>
Spec == Init /\ [][Next]_<<tid, verdict>>
Report == PrintT(ToJson([tid |-> tid, verdict |-> verdict]))
=============================================================================
