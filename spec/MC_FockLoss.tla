----------------------------- MODULE MC_FockLoss -----------------------------
(* C07 "trace is lost only through truncation", C01 on number states: the photon-number distribution of a Fock state |n>,
   n up to the top level D-1 of the truncated space, under loss channels.  Loss only lowers photon numbers, so nothing can leave
   the truncated space: the distribution is the exact binomial thinning, its total stays 1 and its mean is T n.            *)
EXTENDS Rat, TLC, Json, Sequences
CONSTANTS D, Depth, EMIT
VARIABLES n0, hist, dist
vars == <<n0, hist, dist>>
Ts == <<Q(16, 25), Q(1, 4), Q(9, 25)>>           \* transmissivities (rational square roots 4/5, 1/2, 3/5)
RECURSIVE Binom(_, _), RPow(_, _), SumTo(_, _)
Binom(n, k) == IF k = 0 THEN One ELSE RDiv(RMul(Z(n - k + 1), Binom(n, k - 1)), Z(k))
RPow(x, k)  == IF k = 0 THEN One ELSE RMul(x, RPow(x, k - 1))
SumTo(f, k) == IF k < 0 THEN Zero ELSE RAdd(f[k], SumTo(f, k - 1))
Thin(p, T) == [m \in 0 .. D - 1 |->
                 SumTo([n \in 0 .. D - 1 |-> IF n < m THEN Zero
                                            ELSE RMul(p[n], RMul(Binom(n, m), RMul(RPow(T, m), RPow(RSub(One, T), n - m))))], D - 1)]
Init == /\ n0 \in 0 .. D - 1 /\ hist = << >> /\ dist = [m \in 0 .. D - 1 |-> IF m = n0 THEN One ELSE Zero]
Next == /\ Len(hist) < Depth
        /\ \E i \in 1 .. Len(Ts) : hist' = Append(hist, Ts[i]) /\ dist' = Thin(dist, Ts[i]) /\ UNCHANGED n0
Spec == Init /\ [][Next]_vars
RECURSIVE ProdT(_)
ProdT(i) == IF i > Len(hist) THEN One ELSE RMul(hist[i], ProdT(i + 1))
TracePreserved == SumTo(dist, D - 1) = One
MeanScales     == SumTo([m \in 0 .. D - 1 |-> RMul(Z(m), dist[m])], D - 1) = RMul(ProdT(1), Z(n0))
EmitInv == EMIT => PrintT(ToJson([n0 |-> n0, T |-> hist, dist |-> [m \in 1 .. D |-> dist[m - 1]]]))
=============================================================================
