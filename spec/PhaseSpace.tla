----------------------------- MODULE PhaseSpace -----------------------------
(***************************************************************************)
(* Exact Gaussian phase-space kernel on the rational parameter lattice.    *)
(*                                                                         *)
(* A state is a record [modes, mu, V]:                                     *)
(*   modes : sequence of distinct mode labels (external indices, ascending *)
(*           as the simulators report them),                               *)
(*   mu    : vector of 2k rationals, xxpp order over the positions,        *)
(*   V     : 2k x 2k rational covariance matrix,                           *)
(* in units hbar = 2 (vacuum covariance = identity): the "hbar-free"       *)
(* convention of the simulator layer.  Parameter conventions:              *)
(*   angle  = <<c, s>>  a rational point of the unit circle (float atan2)  *)
(*   sq     = q         rational e^r               (float r = ln q)        *)
(*   real   = rational                                                     *)
(*   trans  = rt        rational sqrt of the transmissivity T = rt^2       *)
(* Conventions are those verified against the pinned code (DESIGN App. A). *)
(***************************************************************************)
EXTENDS Rat, FiniteSets

\* ---- states --------------------------------------------------------------
NumModes(st)  == Len(st.modes)
Pos(st, m)    == CHOOSE i \in 1 .. Len(st.modes) : st.modes[i] = m
HasMode(st, m) == \E i \in 1 .. Len(st.modes) : st.modes[i] = m
Vacuum(ms)    == [modes |-> ms, mu |-> ZeroV(2 * Len(ms)), V |-> IdM(2 * Len(ms))]
VacuumN(n)    == Vacuum([i \in 1 .. n |-> i - 1])

\* global indices (x..., p...) of the ordered mode tuple ms
Idx(st, ms)   == LET k == Len(st.modes)  t == Len(ms)
                 IN  [a \in 1 .. 2 * t |-> IF a <= t THEN Pos(st, ms[a]) ELSE k + Pos(st, ms[a - t])]

\* ---- angles --------------------------------------------------------------
A0      == <<One, Zero>>                       \* 0
APi2    == <<Zero, One>>                       \* pi/2
APi     == <<Q(-1, 1), Zero>>                  \* pi
AmPi2   == <<Zero, Q(-1, 1)>>                  \* -pi/2
ANeg(a) == <<a[1], RNeg(a[2])>>
AAdd(a, b) == <<RSub(RMul(a[1], b[1]), RMul(a[2], b[2])), RAdd(RMul(a[1], b[2]), RMul(a[2], b[1]))>>
ASub(a, b) == AAdd(a, ANeg(b))
IsAngle(a) == RAdd(RSq(a[1]), RSq(a[2])) = One
Ch(q)   == RMul(Half, RAdd(q, RInv(q)))
Sh(q)   == RMul(Half, RSub(q, RInv(q)))

\* ---- local symplectic matrices (xxpp over the listed targets) -------------
Rot(a)     == << <<a[1], RNeg(a[2])>>, <<a[2], a[1]>> >>
Sq(q, a)   == LET ch == Ch(q)  sh == Sh(q)
              IN  << <<RSub(ch, RMul(a[1], sh)), RNeg(RMul(a[2], sh))>>,
                     <<RNeg(RMul(a[2], sh)), RAdd(ch, RMul(a[1], sh))>> >>
Shear(s)   == << <<One, Zero>>, <<s, One>> >>
FromU(X, Y) == LET k == Len(X) IN
              [i \in 1 .. 2 * k |-> [j \in 1 .. 2 * k |->
                 IF i <= k /\ j <= k THEN X[i][j]
                 ELSE IF i <= k THEN RNeg(Y[i][j - k])
                 ELSE IF j <= k THEN Y[i - k][j]
                 ELSE X[i - k][j - k]]]
\* complex unitary given as matrix of <<re, im>> pairs
FromUC(U)  == FromU([i \in 1 .. Len(U) |-> [j \in 1 .. Len(U) |-> U[i][j][1]]],
                    [i \in 1 .. Len(U) |-> [j \in 1 .. Len(U) |-> U[i][j][2]]])
BSU(th, ph) == << << <<th[1], Zero>>, CScale(RNeg(th[2]), CConj(ph)) >>,
                  << CScale(th[2], ph), <<th[1], Zero>> >> >>
BS(th, ph) == FromUC(BSU(th, ph))
\* MZgate(phi_in, phi_ex): U = 1/2 [[u(v-1), i(1+v)], [i u (1+v), 1-v]], v = e^{i phi_in}, u = e^{i phi_ex}
MZU(pin, pex) == LET v == pin  u == pex
                     vm1 == CSub(v, COne)  vp1 == CAdd(v, COne)
                 IN  << << CScale(Half, CMul(u, vm1)), CScale(Half, CMul(CI, vp1)) >>,
                        << CScale(Half, CMul(CMul(CI, u), vp1)), CScale(Half, CSub(COne, v)) >> >>
MZ(pin, pex) == FromUC(MZU(pin, pex))
S2(q, ph)  == LET ch == Ch(q)  sh == Sh(q)  c == RMul(ph[1], sh)  s == RMul(ph[2], sh)
              IN  << <<ch, c, Zero, s>>, <<c, ch, s, Zero>>,
                     <<Zero, s, ch, RNeg(c)>>, <<s, Zero, RNeg(c), ch>> >>
CX(s)      == << <<One, Zero, Zero, Zero>>, <<s, One, Zero, Zero>>,
                 <<Zero, Zero, One, RNeg(s)>>, <<Zero, Zero, Zero, One>> >>
CZ(s)      == << <<One, Zero, Zero, Zero>>, <<Zero, One, Zero, Zero>>,
                 <<Zero, s, One, Zero>>, <<s, Zero, Zero, One>> >>
\* inverse of a symplectic matrix M = [[A,B],[C,D]] (xxpp): [[D^T, -B^T], [-C^T, A^T]]
SympInv(M) == LET k == Len(M) \div 2 IN
              [i \in 1 .. 2 * k |-> [j \in 1 .. 2 * k |->
                 IF i <= k /\ j <= k THEN M[j + k][i + k]
                 ELSE IF i <= k THEN RNeg(M[j - k][i + k])
                 ELSE IF j <= k THEN RNeg(M[j + k][i - k])
                 ELSE M[j - k][i - k]]]
Omega(k)   == [i \in 1 .. 2 * k |-> [j \in 1 .. 2 * k |->
                 IF j = i + k THEN One ELSE IF i = j + k THEN Q(-1, 1) ELSE Zero]]
IsSymplectic(M) == LET k == Len(M) \div 2 IN MatMul(MatMul(M, Omega(k)), Transpose(M)) = Omega(k)

\* ---- state transformers ----------------------------------------------------
\* symplectic G (2t x 2t, local xxpp) on the ordered targets ms
ApplySymp(st, ms, G) ==
  LET n   == 2 * Len(st.modes)
      t2  == 2 * Len(ms)
      idx == Idx(st, ms)
      loc == [i \in 1 .. n |-> IF \E a \in 1 .. t2 : idx[a] = i
                               THEN CHOOSE a \in 1 .. t2 : idx[a] = i ELSE 0]
      mu2 == [i \in 1 .. n |-> IF loc[i] = 0 THEN st.mu[i] ELSE Dot(G[loc[i]], SubV(st.mu, idx))]
      W   == [i \in 1 .. n |-> IF loc[i] = 0 THEN st.V[i]
                 ELSE [j \in 1 .. n |-> Dot(G[loc[i]], [b \in 1 .. t2 |-> st.V[idx[b]][j]])]]
      V2  == [i \in 1 .. n |-> [j \in 1 .. n |-> IF loc[j] = 0 THEN W[i][j]
                 ELSE Dot(G[loc[j]], [b \in 1 .. t2 |-> W[i][idx[b]]])]]
  IN  [st EXCEPT !.mu = mu2, !.V = V2]

Displace(st, m, dx, dp) ==
  LET k == Len(st.modes)  i == Pos(st, m)
  IN  [st EXCEPT !.mu = [j \in 1 .. 2 * k |-> IF j = i THEN RAdd(@[j], dx)
                                              ELSE IF j = i + k THEN RAdd(@[j], dp) ELSE @[j]]]

\* loss-type channel on m: amplitude factor rt, added noise nz on the mode's diagonal
Attenuate(st, m, rt, nz) ==
  LET k == Len(st.modes)  i == Pos(st, m)  n == 2 * k
      f(j) == IF j = i \/ j = i + k THEN rt ELSE One
  IN  [st EXCEPT !.mu = [j \in 1 .. n |-> RMul(f(j), @[j])],
                 !.V  = [a \in 1 .. n |-> [b \in 1 .. n |->
                           RAdd(RMul(RMul(f(a), f(b)), @[a][b]),
                                IF a = b /\ (a = i \/ a = i + k) THEN nz ELSE Zero)]]]

\* independent noise nx / np added to the x / p variance of mode m
AddNoise(st, m, nx, np) ==
  LET k == Len(st.modes)  i == Pos(st, m)  n == 2 * k
  IN  [st EXCEPT !.V = [a \in 1 .. n |-> [b \in 1 .. n |->
                           IF a = b /\ a = i THEN RAdd(@[a][b], nx)
                           ELSE IF a = b /\ a = i + k THEN RAdd(@[a][b], np) ELSE @[a][b]]]]

\* replace mode m by the single-mode Gaussian state (d, C) uncorrelated with the rest
SetMode(st, m, d, C) ==
  LET k == Len(st.modes)  i == Pos(st, m)  n == 2 * k
      l(j) == IF j = i THEN 1 ELSE IF j = i + k THEN 2 ELSE 0
  IN  [st EXCEPT !.mu = [j \in 1 .. n |-> IF l(j) = 0 THEN @[j] ELSE d[l(j)]],
                 !.V  = [a \in 1 .. n |-> [b \in 1 .. n |->
                           IF l(a) = 0 /\ l(b) = 0 THEN @[a][b]
                           ELSE IF l(a) # 0 /\ l(b) # 0 THEN C[l(a)][l(b)] ELSE Zero]]]

\* reduced state on the ordered tuple ms (C16, C05)
Reduced(st, ms) == LET idx == Idx(st, ms)
                   IN  [modes |-> ms, mu |-> SubV(st.mu, idx), V |-> SubM(st.V, idx, idx)]

DelMode(st, m)  == LET k == Len(st.modes)  i == Pos(st, m)
                       rest == [j \in 1 .. (k - 1) |-> IF j < i THEN st.modes[j] ELSE st.modes[j + 1]]
                   IN  Reduced(st, rest)
NewMode(st, m)  == LET k == Len(st.modes)
                       old(j) == IF j <= k THEN j ELSE IF j = k + 1 THEN 0 ELSE j - 1   \* new index -> old index (0 = new)
                       n == 2 * k + 2
                   IN  [modes |-> Append(st.modes, m),
                        mu |-> [j \in 1 .. n |-> IF old(j) = 0 \/ j = n THEN Zero ELSE st.mu[old(j)]],
                        V  |-> [a \in 1 .. n |-> [b \in 1 .. n |->
                                 IF (old(a) = 0 \/ a = n) \/ (old(b) = 0 \/ b = n)
                                 THEN (IF a = b THEN One ELSE Zero)
                                 ELSE st.V[old(a)][old(b)]]]]

\* ---- measurements ----------------------------------------------------------
\* homodyne of mode m along angle a with (kernel-unit) outcome x0:
\*   Born law N(bornMean, bornVar); conditional update of the rest; m reset to vacuum
HomRot(st, m, a)   == ApplySymp(st, <<m>>, Rot(ANeg(a)))
HomBornMean(st, m, a) == LET r == HomRot(st, m, a) IN r.mu[Pos(st, m)]
HomBornVar(st, m, a)  == LET r == HomRot(st, m, a)  i == Pos(st, m) IN r.V[i][i]
Homodyne(st, m, a, x0) ==
  LET r  == HomRot(st, m, a)
      i  == Pos(st, m)
      n  == 2 * Len(st.modes)
      vxx == r.V[i][i]
      dlt == RDiv(RSub(x0, r.mu[i]), vxx)
      mu2 == [j \in 1 .. n |-> RAdd(r.mu[j], RMul(r.V[j][i], dlt))]
      V2  == [a1 \in 1 .. n |-> [b \in 1 .. n |-> RSub(r.V[a1][b], RDiv(RMul(r.V[a1][i], r.V[i][b]), vxx))]]
  IN  SetMode([r EXCEPT !.mu = mu2, !.V = V2], m, <<Zero, Zero>>, IdM(2))

\* heterodyne of mode m with outcome alpha = <<re, im>>: measured quadrature pair (2 re, 2 im)
HetBornMean(st, m) == LET i == Pos(st, m)  k == Len(st.modes) IN <<st.mu[i], st.mu[i + k]>>
HetBornCov(st, m)  == LET idx == Idx(st, <<m>>) IN MatAdd(SubM(st.V, idx, idx), IdM(2))
Heterodyne(st, m, al) ==
  LET k   == Len(st.modes)  i == Pos(st, m)  n == 2 * k
      idx == <<i, i + k>>
      Bi  == Inv2(HetBornCov(st, m))
      dv  == <<RSub(RMul(Two, al[1]), st.mu[i]), RSub(RMul(Two, al[2]), st.mu[i + k])>>
      Cm  == [a \in 1 .. n |-> <<st.V[a][i], st.V[a][i + k]>>]          \* n x 2
      K   == [a \in 1 .. n |-> <<Dot(Cm[a], Col(Bi, 1)), Dot(Cm[a], Col(Bi, 2))>>]
      mu2 == [a \in 1 .. n |-> RAdd(st.mu[a], Dot(K[a], dv))]
      V2  == [a \in 1 .. n |-> [b \in 1 .. n |-> RSub(st.V[a][b], Dot(K[a], Cm[b]))]]
  IN  SetMode([st EXCEPT !.mu = mu2, !.V = V2], m, <<Zero, Zero>>, IdM(2))

\* ---- observables (exact; irrational ones as rational ingredients) ----------
QuadMean(st, m, a) == LET i == Pos(st, m)  k == Len(st.modes)
                      IN  RAdd(RMul(a[1], st.mu[i]), RMul(a[2], st.mu[i + k]))
QuadVar(st, m, a)  == LET i == Pos(st, m)  k == Len(st.modes)
                      IN  RAdd3(RMul(RSq(a[1]), st.V[i][i]), RMul(RSq(a[2]), st.V[i + k][i + k]),
                                RMul(Two, RMul(RMul(a[1], a[2]), st.V[i][i + k])))
\* mean photon number of mode m: (Vxx + Vpp + mu.mu)/4 - 1/2
MeanPhoton(st, m)  == LET i == Pos(st, m)  k == Len(st.modes)
                      IN  RSub(RMul(Q(1, 4), RAdd4(st.V[i][i], st.V[i + k][i + k], RSq(st.mu[i]), RSq(st.mu[i + k]))), Half)
RECURSIVE SumPhotonFrom(_, _)
SumPhotonFrom(st, j) == IF j > Len(st.modes) THEN Zero
                        ELSE RAdd(MeanPhoton(st, st.modes[j]), SumPhotonFrom(st, j + 1))
TotalPhoton(st)    == SumPhotonFrom(st, 1)
\* variance of the photon number of mode m: (tr V^2 + 2 mu^T V mu)/8 - 1/4 on the reduced state
VarPhoton(st, m)   == LET r == Reduced(st, <<m>>)
                          V2 == MatMul(r.V, r.V)
                      IN  RSub(RMul(Q(1, 8), RAdd(RAdd(V2[1][1], V2[2][2]),
                                                    RMul(Two, Dot(r.mu, MatVec(r.V, r.mu))))), Q(1, 4))
DetV(st)           == Det(st.V)                 \* purity = 1/sqrt(det V)

\* ---- physicality (C07) -------------------------------------------------------
Symmetric(st)      == IsSymmetric(st.V)
\* necessary uncertainty conditions decidable exactly: every single-mode reduction has det >= 1,
\* and the full determinant is >= 1
ModeUncertainty(st) == \A j \in 1 .. Len(st.modes) : RLe(One, Det(Reduced(st, <<st.modes[j]>>).V))
GlobalUncertainty(st) == RLe(One, DetV(st))
=============================================================================
