--------------------------------- MODULE Ops ---------------------------------
(***************************************************************************)
(* Abstract Strawberry Fields operations and their exact denotation on the *)
(* Gaussian kernel (PhaseSpace).  An operation is a record                 *)
(*    [name, p, modes, dag]                                                *)
(* name : the class name in strawberryfields.ops,                           *)
(* p    : parameter tuple in the lattice conventions of PhaseSpace,        *)
(* modes: ordered tuple of target mode labels, dag: inverse flag (.H).     *)
(* Apply(st, op, k) is the *documented* transformation, k = sqrt(hbar/2)   *)
(* (the front end rescales position/momentum-unit parameters by k).        *)
(***************************************************************************)
EXTENDS PhaseSpace

Op(name, p, modes)      == [name |-> name, p |-> p, modes |-> modes, dag |-> FALSE]
OpH(name, p, modes)     == [name |-> name, p |-> p, modes |-> modes, dag |-> TRUE]
Dagger(op)              == [op EXCEPT !.dag = ~@]

Symp1Names  == {"Rgate", "Sgate", "Pgate", "Fouriergate"}
Symp2Names  == {"BSgate", "S2gate", "CXgate", "CZgate", "MZgate"}
SympNNames  == {"GaussianTransform", "Interferometer"}   \* p = <<S>>: explicit symplectic matrix (local xxpp over the targets); p = <<U>>: complex unitary
DispNames   == {"Dgate", "Xgate", "Zgate"}
ChanNames   == {"LossChannel", "ThermalLossChannel"}
MBNames     == {"MSgate"}      \* measurement-based squeezing, average map: p = <<e^r, half the squeezing angle, e^(r_anc), eta_anc>>
PrepNames   == {"Vacuum", "Coherent", "Squeezed", "DisplacedSqueezed", "Thermal"}
MeasNames   == {"MeasureHomodyne", "MeasureHeterodyne"}
MetaNames   == {"Del", "New"}
PassiveNames == {"Rgate", "Fouriergate", "BSgate", "MZgate"}
UnitaryNames == Symp1Names \cup Symp2Names \cup SympNNames \cup DispNames

IsUnitary(op) == op.name \in UnitaryNames
IsPassive(op) == op.name \in PassiveNames
IsChannel(op) == op.name \in ChanNames
IsPrep(op)    == op.name \in PrepNames
IsMeas(op)    == op.name \in MeasNames

\* local symplectic matrix of a (non-daggered) symplectic gate
Matrix(op) ==
  CASE op.name = "Rgate"       -> Rot(op.p[1])
    [] op.name = "Fouriergate" -> Rot(APi2)
    [] op.name = "Sgate"       -> Sq(op.p[1], op.p[2])
    [] op.name = "Pgate"       -> Shear(op.p[1])
    [] op.name = "BSgate"      -> BS(op.p[1], op.p[2])
    [] op.name = "MZgate"      -> MZ(op.p[1], op.p[2])
    [] op.name = "S2gate"      -> S2(op.p[1], op.p[2])
    [] op.name = "CXgate"      -> CX(op.p[1])
    [] op.name = "CZgate"      -> CZ(op.p[1])
    [] op.name = "GaussianTransform" -> op.p[1]
    [] op.name = "Interferometer"    -> FromUC(op.p[1])
SympOf(op) == IF op.dag THEN SympInv(Matrix(op)) ELSE Matrix(op)

\* displacement (dx, dp) in kernel units of a displacement-type gate at hbar factor k
DispOf(op, k) ==
  LET sg == IF op.dag THEN Q(-1, 1) ELSE One IN
  CASE op.name = "Dgate" -> <<RMul(sg, RMul(Two, RMul(op.p[1], op.p[2][1]))),
                              RMul(sg, RMul(Two, RMul(op.p[1], op.p[2][2])))>>
    [] op.name = "Xgate" -> <<RMul(sg, RDiv(op.p[1], k)), Zero>>
    [] op.name = "Zgate" -> <<Zero, RMul(sg, RDiv(op.p[1], k))>>

SqCov(q, a) == LET S == Sq(q, a) IN MatMul(S, Transpose(S))
\* measurement-based squeezing (average map, strawberryfields.ops.MSgate with avg = True): in the frame rotated by half the
\* squeezing angle x -> x / q, p -> q p, with noise (1 - 1/q^2) / a^2 on x (finite ancilla squeezing) and
\* (q^2 - 1) (1 - eta) / eta on p (ancilla detection efficiency)
MSDiag(op)  == << <<RInv(op.p[1]), Zero>>, <<Zero, op.p[1]>> >>
MSLin(op)   == MatMul(Rot(op.p[2]), MatMul(MSDiag(op), Rot(ANeg(op.p[2]))))
MSNoiseX(op) == RDiv(RSub(One, RInv(RSq(op.p[1]))), RSq(op.p[3]))
MSNoiseP(op) == RDiv(RMul(RSub(RSq(op.p[1]), One), RSub(One, op.p[4])), op.p[4])

Apply(st, op, k) ==
  LET m == op.modes[1] IN
  CASE op.name \in Symp1Names \cup Symp2Names \cup SympNNames -> ApplySymp(st, op.modes, SympOf(op))
    [] op.name \in DispNames -> LET d == DispOf(op, k) IN Displace(st, m, d[1], d[2])
    [] op.name = "LossChannel" -> Attenuate(st, m, op.p[1], RSub(One, RSq(op.p[1])))
    [] op.name = "ThermalLossChannel" ->
          Attenuate(st, m, op.p[1], RMul(RSub(One, RSq(op.p[1])), RAdd(RMul(Two, op.p[2]), One)))
    [] op.name = "MSgate" ->
          ApplySymp(AddNoise(ApplySymp(ApplySymp(st, <<m>>, Rot(ANeg(op.p[2]))), <<m>>, MSDiag(op)), m, MSNoiseX(op), MSNoiseP(op)),
                    <<m>>, Rot(op.p[2]))
    [] op.name = "Vacuum"   -> SetMode(st, m, <<Zero, Zero>>, IdM(2))
    [] op.name = "Coherent" -> SetMode(st, m, <<RMul(Two, RMul(op.p[1], op.p[2][1])),
                                                RMul(Two, RMul(op.p[1], op.p[2][2]))>>, IdM(2))
    [] op.name = "Squeezed" -> SetMode(st, m, <<Zero, Zero>>, SqCov(op.p[1], op.p[2]))
    [] op.name = "DisplacedSqueezed" ->
          SetMode(st, m, <<RMul(Two, RMul(op.p[1], op.p[2][1])), RMul(Two, RMul(op.p[1], op.p[2][2]))>>,
                  SqCov(op.p[3], op.p[4]))
    [] op.name = "Thermal"  -> SetMode(st, m, <<Zero, Zero>>, MatScale(RAdd(RMul(Two, op.p[1]), One), IdM(2)))
    [] op.name = "MeasureHomodyne"   -> Homodyne(st, m, op.p[1], RDiv(op.p[2], k))    \* p = <<angle, select>>
    [] op.name = "MeasureHeterodyne" -> Heterodyne(st, m, op.p[1])                   \* p = <<alpha>>
    [] op.name = "Del" -> DelMode(st, m)
    [] op.name = "New" -> NewMode(st, m)

RECURSIVE ApplySeqFrom(_, _, _, _)
ApplySeqFrom(st, ops, k, i) == IF i > Len(ops) THEN st ELSE ApplySeqFrom(Apply(st, ops[i], k), ops, k, i + 1)
ApplySeq(st, ops, k) == ApplySeqFrom(st, ops, k, 1)

SeqToSet(s)     == {s[i] : i \in 1 .. Len(s)}
Others(st, op)  == SelectSeq(st.modes, LAMBDA x : x \notin SeqToSet(op.modes))
=============================================================================
