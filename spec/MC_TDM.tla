------------------------------- MODULE MC_TDM -------------------------------
(***************************************************************************)
(* C13: a time-domain program denotes its explicit loop.                   *)
(*                                                                         *)
(* One-bin circuit (template) over Ntot = sum of band sizes concurrent     *)
(* modes; command = [name, e, pos, dag] where e is a tuple of parameter    *)
(* sources: <<"c", value>> constant or <<"p", i>> the i-th per-bin array.  *)
(* Reference meaning (Explicit): pulses are the modes.  In global bin g    *)
(* (g = shot * T + t) band b holds pulses g .. g + n_b - 1 at its          *)
(* positions 0 .. n_b - 1; every command acts on those pulses with the     *)
(* arrays read at t = g mod T; the measured leading pulse leaves, a fresh  *)
(* vacuum pulse enters.                                                    *)
(* Unrolled / SpaceUnrolled model what the code builds (register shifting  *)
(* per band, or one fresh register index per pulse).  TLC checks           *)
(* UnrollMeansLoop and SpaceMeansLoop (same operations, parameters, flags  *)
(* on the same pulses), the history machine (RollRestores, CacheCoherent), *)
(* and emits the exact joint state without measurements, and the chain of  *)
(* conditional Born laws under forced outcomes, for the replay.            *)
(***************************************************************************)
EXTENDS Ops, TLC, Json

CONSTANTS TemplateId, T, MaxShots, HistDepth, EMIT
VARIABLES form, ushots, calls, lasterr
vars == <<form, ushots, calls, lasterr>>
K == One

a345  == <<Q(3, 5), Q(4, 5)>>
a435  == <<Q(4, 5), Q(3, 5)>>
am345 == <<Q(-3, 5), Q(4, 5)>>
C(v) == <<"c", v>>
P(i) == <<"p", i>>
R(i) == <<"r", i>>                                       \* real-valued (not angle-valued) parameter array
TCmd(name, e, pos, dag) == [name |-> name, e |-> e, pos |-> pos, dag |-> dag]

\* ---- templates ------------------------------------------------------------------------------------
Bands == CASE TemplateId = "n2" -> <<2>> [] TemplateId = "n3" -> <<3>> [] TemplateId = "n3b" -> <<3>> [] TemplateId = "b22" -> <<2, 2>> [] TemplateId = "b23" -> <<2, 3>> [] TemplateId = "b352" -> <<3, 5, 2>> [] TemplateId = "n2x" -> <<2>> [] TemplateId = "b12r" -> <<1, 2>>
Bin == CASE TemplateId = "n2" ->
              << TCmd("Sgate", <<C(Q(4, 3)), C(A0)>>, <<1>>, FALSE), TCmd("BSgate", <<P(1), C(A0)>>, <<0, 1>>, FALSE),
                 TCmd("Rgate", <<P(2)>>, <<1>>, FALSE), TCmd("MeasureHomodyne", <<P(3)>>, <<0>>, FALSE) >>
         [] TemplateId = "n3" ->
              << TCmd("Sgate", <<C(Q(4, 3)), C(APi2)>>, <<2>>, FALSE), TCmd("BSgate", <<P(1), C(APi2)>>, <<1, 2>>, FALSE),
                 TCmd("BSgate", <<P(2), C(A0)>>, <<0, 2>>, FALSE), TCmd("MeasureHomodyne", <<P(3)>>, <<0>>, FALSE) >>
         [] TemplateId = "n3b" ->
              << TCmd("Sgate", <<C(Q(4, 3)), C(A0)>>, <<2>>, FALSE), TCmd("BSgate", <<P(1), C(APi2)>>, <<1, 2>>, TRUE),
                 TCmd("Rgate", <<P(2)>>, <<2>>, TRUE), TCmd("BSgate", <<C(a345), C(A0)>>, <<0, 1>>, FALSE),
                 TCmd("MeasureHomodyne", <<P(3)>>, <<0>>, FALSE) >>
         [] TemplateId = "b22" ->
              << TCmd("Sgate", <<C(Q(4, 3)), C(A0)>>, <<1>>, FALSE), TCmd("Sgate", <<C(Q(3, 4)), C(A0)>>, <<3>>, FALSE),
                 TCmd("BSgate", <<P(1), C(A0)>>, <<1, 3>>, FALSE), TCmd("BSgate", <<P(2), C(APi2)>>, <<0, 1>>, FALSE),
                 TCmd("Rgate", <<P(3)>>, <<2>>, FALSE),
                 TCmd("MeasureHomodyne", <<P(3)>>, <<0>>, FALSE), TCmd("MeasureHomodyne", <<P(1)>>, <<2>>, FALSE) >>
         \* band sizes that do not divide each other: the measurement pattern repeats after lcm(2, 3) bins, not after max
         [] TemplateId = "b23" ->
              << TCmd("Sgate", <<C(Q(4, 3)), C(A0)>>, <<1>>, FALSE), TCmd("Sgate", <<C(Q(3, 4)), C(A0)>>, <<4>>, FALSE),
                 TCmd("BSgate", <<P(1), C(A0)>>, <<1, 4>>, FALSE), TCmd("BSgate", <<P(2), C(APi2)>>, <<0, 1>>, FALSE),
                 TCmd("BSgate", <<C(a345), C(A0)>>, <<2, 4>>, FALSE), TCmd("Rgate", <<P(3)>>, <<3>>, FALSE),
                 TCmd("MeasureHomodyne", <<P(3)>>, <<0>>, FALSE), TCmd("MeasureHomodyne", <<P(1)>>, <<2>>, FALSE) >>
         \* three bands with leading modes 0, 3, 8
         [] TemplateId = "b352" ->
              << TCmd("Sgate", <<C(Q(4, 3)), C(A0)>>, <<2>>, FALSE), TCmd("Dgate", <<C(Q(1, 2)), P(2)>>, <<7>>, FALSE),
                 TCmd("Sgate", <<C(Q(3, 4)), C(APi2)>>, <<9>>, FALSE),
                 TCmd("BSgate", <<P(1), C(A0)>>, <<2, 7>>, FALSE), TCmd("BSgate", <<P(2), C(APi2)>>, <<7, 9>>, FALSE),
                 TCmd("MeasureHomodyne", <<P(3)>>, <<0>>, FALSE), TCmd("MeasureHomodyne", <<P(1)>>, <<3>>, FALSE),
                 TCmd("MeasureHomodyne", <<C(A0)>>, <<8>>, FALSE) >>
         \* gates the Gaussian compiler decomposes into gates whose arguments are expressions of the array parameter
         [] TemplateId = "n2x" ->
              << TCmd("Sgate", <<C(Q(4, 3)), C(A0)>>, <<1>>, FALSE), TCmd("Xgate", <<R(1)>>, <<1>>, FALSE),
                 TCmd("BSgate", <<P(1), C(A0)>>, <<0, 1>>, FALSE), TCmd("CZgate", <<R(1)>>, <<0, 1>>, FALSE),
                 TCmd("Zgate", <<R(1)>>, <<1>>, TRUE), TCmd("MeasureHomodyne", <<P(3)>>, <<0>>, FALSE) >>
         \* two bands whose measurements are written in descending band order (the samples are still arranged by band)
         [] TemplateId = "b12r" ->
              << TCmd("Sgate", <<C(Q(4, 3)), C(A0)>>, <<2>>, FALSE), TCmd("Sgate", <<C(Q(3, 4)), C(APi2)>>, <<0>>, FALSE),
                 TCmd("BSgate", <<P(1), C(A0)>>, <<0, 2>>, FALSE), TCmd("Rgate", <<P(2)>>, <<1>>, FALSE),
                 TCmd("MeasureHomodyne", <<P(3)>>, <<1>>, FALSE), TCmd("MeasureHomodyne", <<P(1)>>, <<0>>, FALSE) >>
AngleCycle == <<a345, APi2, am345, A0, a435>>
NArrays == 3
Arr(i, t) == AngleCycle[((t + 2 * i) % 5) + 1]          \* value of the i-th array at time bin t (t from 0)
Outcome(g, b) == Q(((2 * g + b) % 7) - 3, 4)             \* forced homodyne outcome of band b in global bin g

\* ---- geometry ---------------------------------------------------------------------------------------
NB        == Len(Bands)
RECURSIVE SumTo(_, _)
SumTo(s, k) == IF k = 0 THEN 0 ELSE s[k] + SumTo(s, k - 1)
Ntot      == SumTo(Bands, NB)
Off(b)    == SumTo(Bands, b - 1)                          \* first register position of band b (b from 1)
BandOf(pos) == CHOOSE b \in 1 .. NB : Off(b) <= pos /\ pos < Off(b) + Bands[b]
ArrR(i, t) == Q(((t + i) % 3) - 1, 2)                   \* value of the i-th real array at time bin t
NRArrays == 1
Val(src, t) == IF src[1] = "c" THEN src[2] ELSE IF src[1] = "p" THEN Arr(src[2], t) ELSE ArrR(src[2], t)
Params(c, t) == [i \in DOMAIN c.e |-> Val(c.e[i], t)]
\* pulses of band b are numbered 0, 1, 2, ...; global mode label of a pulse in the explicit loop
PulseLabel(b, p, s) == LET perBand(bb) == s * T + Bands[bb] - 1 IN SumTo([bb \in 1 .. NB |-> perBand(bb)], b - 1) + p
PulseOf(pos, g)     == LET b == BandOf(pos) IN <<b, g + (pos - Off(b))>>

\* ---- the three circuit forms (as command lists) ------------------------------------------------------
EntryAt(g, k, modes) == LET c == Bin[k] IN [name |-> c.name, p |-> Params(c, g % T), dag |-> c.dag, modes |-> modes, g |-> g, k |-> k]
Explicit(s) == [j \in 1 .. s * T * Len(Bin) |->
                  LET g == (j - 1) \div Len(Bin)  k == ((j - 1) % Len(Bin)) + 1  c == Bin[k] IN
                  EntryAt(g, k, [i \in DOMAIN c.pos |-> LET pl == PulseOf(c.pos[i], g) IN PulseLabel(pl[1], pl[2], s)])]
\* register index that holds position pos in global bin g under per-band shifting
RegAt(pos, g) == LET b == BandOf(pos) IN Off(b) + ((pos - Off(b) + g) % Bands[b])
Unrolled(s) == [j \in 1 .. s * T * Len(Bin) |->
                  LET g == (j - 1) \div Len(Bin)  k == ((j - 1) % Len(Bin)) + 1  c == Bin[k] IN
                  EntryAt(g, k, [i \in DOMAIN c.pos |-> RegAt(c.pos[i], g)])]
\* an integer shift rotates the WHOLE register by that many positions after every time bin ("the register will shift by a step
\* size of this integer"), in the direction of the default shift: for one band, shift 1 is the default shift
RegAtInt(pos, g, sh) == (pos + sh * g) % Ntot
UnrolledInt(sh) == [j \in 1 .. T * Len(Bin) |->
                  LET g == (j - 1) \div Len(Bin)  k == ((j - 1) % Len(Bin)) + 1  c == Bin[k] IN
                  EntryAt(g, k, [i \in DOMAIN c.pos |-> RegAtInt(c.pos[i], g, sh)])]
IntShiftOneIsDefault == (NB = 1) => \A j \in 1 .. T * Len(Bin) : UnrolledInt(1)[j].modes = Unrolled(1)[j].modes
\* space unrolling (single band, one shot): register index = pulse number
SpaceUnrolled == [j \in 1 .. T * Len(Bin) |->
                  LET g == (j - 1) \div Len(Bin)  k == ((j - 1) % Len(Bin)) + 1  c == Bin[k] IN
                  EntryAt(g, k, [i \in DOMAIN c.pos |-> g + c.pos[i]])]
\* the pulse a register index holds in global bin g (the index is recycled once its pulse has been measured)
HeldPulse(m, g, s) == LET b == BandOf(m)  r == m - Off(b)
                          p == CHOOSE x \in g .. g + Bands[b] - 1 : x % Bands[b] = r
                      IN  PulseLabel(b, p, s)
UnrollMeansLoop(s) == \A j \in 1 .. s * T * Len(Bin) :
                         LET u == Unrolled(s)[j]  e == Explicit(s)[j] IN
                         /\ u.name = e.name /\ u.p = e.p /\ u.dag = e.dag
                         /\ [i \in DOMAIN u.modes |-> HeldPulse(u.modes[i], u.g, s)] = e.modes
SpaceMeansLoop == NB = 1 => \A j \in 1 .. T * Len(Bin) :
                         LET u == SpaceUnrolled[j]  e == Explicit(1)[j] IN
                         u.name = e.name /\ u.p = e.p /\ u.dag = e.dag /\ u.modes = e.modes

\* ---- exact semantics of the explicit loop ----------------------------------------------------------------
NPulses(s)    == SumTo([b \in 1 .. NB |-> s * T + Bands[b] - 1], NB)
ToOp(e)       == [name |-> e.name, p |-> e.p, modes |-> e.modes, dag |-> e.dag]
IsMeasure(e)  == e.name = "MeasureHomodyne"
\* joint state of all pulses when the measurements are withheld
RECURSIVE RunNoMeas(_, _, _)
RunNoMeas(st, es, j) == IF j > Len(es) THEN st
                        ELSE RunNoMeas(IF IsMeasure(es[j]) THEN st ELSE Apply(st, ToOp(es[j]), K), es, j + 1)
JointState(s) == RunNoMeas(VacuumN(NPulses(s)), Explicit(s), 1)
\* chain of conditional Born laws under the forced outcomes
RECURSIVE RunChain(_, _, _, _)
RunChain(st, es, j, acc) ==
   IF j > Len(es) THEN [st |-> st, chain |-> acc]
   ELSE LET e == es[j] IN
        IF IsMeasure(e)
        THEN LET m == e.modes[1]  b == BandOf(Bin[e.k].pos[1])  x == Outcome(e.g, b) IN
             RunChain(Homodyne(st, m, e.p[1], x), es, j + 1,
                      Append(acc, [g |-> e.g, band |-> b, mode |-> m, x |-> x, bmean |-> HomBornMean(st, m, e.p[1]), bvar |-> HomBornVar(st, m, e.p[1])]))
        ELSE RunChain(Apply(st, ToOp(e), K), es, j + 1, acc)
Chain(s) == RunChain(VacuumN(NPulses(s)), Explicit(s), 1, << >>)

\* ---- history machine of unroll / space_unroll / roll -----------------------------------------------------------
Init == form = "rolled" /\ ushots = 0 /\ calls = << >> /\ lasterr = "none"
Call(name, s) == [c |-> name, s |-> s]
Unroll(s) == /\ Len(calls) < HistDepth /\ calls' = Append(calls, Call("unroll", s))
             /\ IF form = "space" THEN lasterr' = "ValueError" /\ UNCHANGED <<form, ushots>>
                ELSE form' = "unrolled" /\ ushots' = s /\ lasterr' = "none"
SpaceUnroll(s) == /\ Len(calls) < HistDepth /\ NB = 1 /\ calls' = Append(calls, Call("space_unroll", s))
                  /\ form' = "space" /\ ushots' = s /\ lasterr' = "none"
Roll == /\ Len(calls) < HistDepth /\ calls' = Append(calls, Call("roll", 0))
        /\ form' = "rolled" /\ ushots' = 0 /\ lasterr' = "none"
Next == (\E s \in 1 .. MaxShots : Unroll(s)) \/ SpaceUnroll(1) \/ Roll
Spec == Init /\ [][Next]_vars
RollRestores  == (form = "rolled") => ushots = 0
CacheCoherent == (form # "rolled") => ushots > 0
MeansLoop     == (\A s \in 1 .. MaxShots : UnrollMeansLoop(s)) /\ SpaceMeansLoop
Expected      == IF form = "rolled" THEN << >> ELSE IF form = "unrolled" THEN Unrolled(ushots) ELSE SpaceUnrolled
EmitHist == EMIT => PrintT(ToJson([kind |-> "hist", calls |-> calls, form |-> form, shots |-> ushots, err |-> lasterr, circuit |-> Expected]))
\* static data of the instance, printed once (at the initial state)
EmitStatic == (EMIT /\ calls = << >>) =>
   PrintT(ToJson([kind |-> "static", template |-> TemplateId, bands |-> Bands, T |-> T, bin |-> Bin,
                  arrays |-> [i \in 1 .. NArrays |-> [t \in 1 .. T |-> Arr(i, t - 1)]],
                  rarrays |-> [i \in 1 .. NRArrays |-> [t \in 1 .. T |-> ArrR(i, t - 1)]],
                  explicit |-> [s \in 1 .. MaxShots |-> Explicit(s)],
                  intshift |-> [sh \in 1 .. 3 |-> [j \in 1 .. T * Len(Bin) |-> UnrolledInt(sh)[j].modes]],
                  joint |-> JointState(1),
                  chain |-> [s \in 1 .. MaxShots |-> Chain(s)],
                  npulses |-> [s \in 1 .. MaxShots |-> NPulses(s)]]))
=============================================================================
