------------------------------- MODULE MC_Obs -------------------------------
(***************************************************************************)
(* C16: exact values of the observables of the lattice states reached by   *)
(* MC_Gauss behaviours, for EVERY ordered tuple of modes (all subsets, all *)
(* orders, up to MaxTuple modes).  Irrational observables are given by     *)
(* their rational ingredients (determinants, quadratic forms); the harness *)
(* applies sqrt / exp last.  TLC also checks the consistency laws that tie *)
(* the observables together on the kernel itself.                          *)
(***************************************************************************)
EXTENDS MC_Gauss, SequencesExt
CONSTANT MaxTuple

Bordered(A, v) == LET n == Len(A) IN
                  [i \in 1 .. n + 1 |-> [j \in 1 .. n + 1 |->
                     IF i <= n /\ j <= n THEN A[i][j] ELSE IF i <= n THEN v[i] ELSE IF j <= n THEN v[j] ELSE Zero]]
\* v^T A^{-1} v  =  - det [[A, v], [v^T, 0]] / det A
QForm(A, v)    == RNeg(RDiv(Det(Bordered(A, v)), Det(A)))
\* ordered tuples of distinct active modes, length 1 .. MaxTuple
RECURSIVE TuplesOf(_, _)
TuplesOf(S, k) == IF k = 0 THEN {<< >>}
                  ELSE {Append(t, m) : t \in {u \in TuplesOf(S, k - 1) : TRUE}, m \in S} 
DistinctSeq(t) == \A i, j \in DOMAIN t : i # j => t[i] # t[j]
Tuples         == {t \in UNION {TuplesOf(SeqToSet(st.modes), k) : k \in 1 .. MaxTuple} : DistinctSeq(t)}
ObsOf(ms)      == LET r == Reduced(st, ms)  VI == MatAdd(r.V, IdM(2 * Len(ms))) IN
                  [ms |-> ms, mu |-> r.mu, V |-> r.V, det |-> Det(r.V), qf |-> QForm(r.V, r.mu),
                   detI |-> Det(VI), qfI |-> QForm(VI, r.mu)]
Angles3        == <<A0, APi2, a345, a3m45>>
ModeObs(m)     == [m |-> m, nbar |-> MeanPhoton(st, m), nvar |-> VarPhoton(st, m),
                   quad |-> [j \in 1 .. Len(Angles3) |-> <<Angles3[j], QuadMean(st, m, Angles3[j]), QuadVar(st, m, Angles3[j])>>]]
EmitObs == EMIT => PrintT(ToJson([hist |-> hist, st |-> st,
                                   tuples |-> [t \in 1 .. Cardinality(Tuples) |-> ObsOf(SetToSeq(Tuples)[t])],
                                   modes |-> [j \in 1 .. Len(st.modes) |-> ModeObs(st.modes[j])]]))
\* consistency laws on the kernel (design level)
NbarFromMoments == \A j \in 1 .. Len(st.modes) :
                      LET m == st.modes[j] IN
                      MeanPhoton(st, m) = RSub(RMul(Q(1, 4), RAdd4(QuadVar(st, m, A0), QuadVar(st, m, APi2),
                                                   RSq(QuadMean(st, m, A0)), RSq(QuadMean(st, m, APi2)))), Half)
ReducedOfReduced == \A t \in Tuples : Len(t) = 2 =>
                      Reduced(Reduced(st, t), <<t[2]>>) = Reduced(st, <<t[2]>>)
PurityBound      == \A t \in Tuples : RLe(One, Det(Reduced(st, t).V))
=============================================================================
