------------------------------- MODULE MC_Opt -------------------------------
(* Design-level check of C03 on the model: for every circuit of Len commands over the alphabet (every family
   plain and daggered, parameter pairs summing to the neutral element) every sequence of merge / cancel steps
   of neighbouring one-mode commands preserves the denotation (exact Gaussian state on a probe + finite
   phase-space map).  With EMIT the enumerated circuits are printed for the replay into Program.optimize(). *)
EXTENDS Optimizer, TLC, Json
CONSTANTS NMod, Len0, AlphaId, EMIT
VARIABLES input, circ
vars == <<input, circ>>

a345  == <<Q(3, 5), Q(4, 5)>>
a3m45 == <<Q(3, 5), Q(-4, 5)>>
One1(m) == << Op("Rgate", <<a345>>, <<m>>), Op("Rgate", <<a3m45>>, <<m>>), OpH("Rgate", <<a345>>, <<m>>), Op("Rgate", <<APi>>, <<m>>),
              Op("Fouriergate", <<>>, <<m>>), OpH("Fouriergate", <<>>, <<m>>),
              Op("Sgate", <<Q(4, 3), A0>>, <<m>>), Op("Sgate", <<Q(3, 4), A0>>, <<m>>), OpH("Sgate", <<Q(4, 3), A0>>, <<m>>),
              Op("Sgate", <<Q(4, 3), APi2>>, <<m>>),
              Op("Dgate", <<Q(1, 2), A0>>, <<m>>), OpH("Dgate", <<Q(1, 2), A0>>, <<m>>), Op("Dgate", <<Q(1, 2), APi2>>, <<m>>),
              Op("Xgate", <<Q(1, 2)>>, <<m>>), Op("Xgate", <<Q(-1, 2)>>, <<m>>), OpH("Zgate", <<Q(1, 4)>>, <<m>>), Op("Zgate", <<Q(1, 4)>>, <<m>>),
              Op("Pgate", <<One>>, <<m>>), OpH("Pgate", <<One>>, <<m>>), Op("Pgate", <<Q(1, 4096)>>, <<m>>),
              Op("LossChannel", <<Q(4, 5)>>, <<m>>), Op("LossChannel", <<One>>, <<m>>),
              Op("ThermalLossChannel", <<Q(4, 5), Q(1, 2)>>, <<m>>), Op("ThermalLossChannel", <<Q(4, 5), One>>, <<m>>),
              Op("Vacuum", <<>>, <<m>>), Op("Coherent", <<Q(1, 2), a345>>, <<m>>), Op("Squeezed", <<Q(4, 3), APi2>>, <<m>>) >>
\* measurement-based squeezing (bosonic simulator only): composing two of them is not one of them -- nothing may be merged
MB(m)   == << Op("MSgate", <<Q(4, 3), A0, Q(2, 1), Q(4, 5)>>, <<m>>), Op("MSgate", <<Q(3, 2), a345, Q(2, 1), One>>, <<m>>),
              Op("MSgate", <<Q(3, 4), A0, Q(2, 1), Q(4, 5)>>, <<m>>) >>
NonG(m) == << Op("Kgate", <<Z(1)>>, <<m>>), Op("Kgate", <<Z(3)>>, <<m>>), OpH("Kgate", <<Z(1)>>, <<m>>),
              Op("Vgate", <<One>>, <<m>>), Op("Vgate", <<Q(-1, 1)>>, <<m>>), OpH("Vgate", <<Q(1, 2)>>, <<m>>) >>
Two1(m1, m2) == << Op("BSgate", <<a345, A0>>, <<m1, m2>>), OpH("BSgate", <<a345, A0>>, <<m1, m2>>), Op("CXgate", <<One>>, <<m1, m2>>) >>
\* a short list of one-mode operations for the "sandwich" programs (a two-mode gate, one operation on either of its modes, a two-mode gate)
Small1(m) == << Op("Rgate", <<a345>>, <<m>>), Op("Sgate", <<Q(4, 3), A0>>, <<m>>), Op("Dgate", <<Q(1, 2), A0>>, <<m>>),
                Op("LossChannel", <<Q(4, 5)>>, <<m>>), Op("Coherent", <<Q(1, 2), a345>>, <<m>>) >>
RECURSIVE CatM(_, _)
CatM(F(_), n) == IF n = 0 THEN << >> ELSE CatM(F, n - 1) \o F(n - 1)
Alphabet == CASE AlphaId = "g" -> CatM(One1, NMod) \o (IF NMod >= 2 THEN Two1(0, 1) \o Two1(1, 0) ELSE << >>)
              [] AlphaId = "h" -> CatM(One1, NMod) \o CatM(NonG, NMod) \o (IF NMod >= 2 THEN Two1(0, 1) \o Two1(1, 0) ELSE << >>)
              [] AlphaId = "m" -> CatM(MB, NMod) \o << Op("Rgate", <<a345>>, <<0>>), Op("Sgate", <<Q(4, 3), A0>>, <<0>>), Op("LossChannel", <<Q(4, 5)>>, <<0>>),
                                                      Op("Dgate", <<Q(1, 2), A0>>, <<0>>), OpH("Rgate", <<a345>>, <<0>>) >>
              [] AlphaId = "s" -> CatM(Small1, NMod) \o Two1(0, 1) \o Two1(1, 0)
              [] AlphaId = "n" -> CatM(NonG, NMod) \o << Op("Rgate", <<a345>>, <<0>>), Op("Xgate", <<Q(1, 2)>>, <<0>>), Op("Sgate", <<Q(4, 3), A0>>, <<0>>) >>

RangeOf(q) == {q[i] : i \in DOMAIN q}
Init == /\ IF AlphaId = "s"
           THEN \E a, c \in RangeOf(Two1(0, 1) \o Two1(1, 0)) : \E b \in RangeOf(CatM(Small1, NMod)) : input = <<a, b, c>>
           ELSE \E f \in [1 .. Len0 -> 1 .. Len(Alphabet)] : input = [i \in 1 .. Len0 |-> Alphabet[f[i]]]
        /\ circ = input
\* positions i < j are neighbours on their wire: same single mode and no command between them touches it
Neighbours(i, j) == /\ i < j /\ circ[i].modes = circ[j].modes /\ Len(circ[i].modes) = 1
                    /\ \A k \in (i + 1) .. (j - 1) : circ[i].modes[1] \notin SeqToSet(circ[k].modes)
Remove(s, j)  == SubSeq(s, 1, j - 1) \o SubSeq(s, j + 1, Len(s))
MergeStep(i, j) == /\ Neighbours(i, j)
                   /\ LET m == Merge(circ[i], circ[j]) IN
                      /\ m.k # "fail"
                      /\ circ' = IF m.k = "cancel" THEN Remove(Remove(circ, j), i) ELSE Remove([circ EXCEPT ![i] = m.op], j)
                   /\ UNCHANGED input
Next == \E i, j \in DOMAIN circ : MergeStep(i, j)
Spec == Init /\ [][Next]_vars

DenotationPreserved == (circ # input) => SameDen(circ, input, NMod)
\* the merge algebra itself, for every ordered pair of the alphabet on the same single mode (evaluated once)
MergeAlgebraSound   == \A i, j \in 1 .. Len(Alphabet) :
                          (Alphabet[i].modes = Alphabet[j].modes /\ Len(Alphabet[i].modes) = 1)
                             => MergeSound(Alphabet[i], Alphabet[j], NMod)
\* reachability witnesses (vacuity control): some pair cancels, some pair merges to an operation
SomeCancel == \E i, j \in 1 .. Len(Alphabet) : Merge(Alphabet[i], Alphabet[j]).k = "cancel"
SomeMerge  == \E i, j \in 1 .. Len(Alphabet) : Merge(Alphabet[i], Alphabet[j]).k = "op"
EmitInv == (EMIT /\ circ = input) =>
              PrintT(ToJson([circ |-> input, n |-> NMod, prefix |-> ProbeOps(NMod),
                             st |-> IF AllGaussian(input) THEN ExactDen(input, NMod) ELSE Vacuum(<< >>)]))
=============================================================================
