------------------------------ MODULE TraceDevice ------------------------------
(* C12: a compiled circuit must be an instance of the device template: the same gates on the same modes (matched by perm, in
   an order compatible with the template's dependencies) with every parameter inside its allowed range (integers scaled by
   10^6) and fixed parameters at their fixed value.                                                                       *)
EXTENDS CircuitOrder, TLC, Json, IOUtils
Cases == JsonDeserialize(IOEnv.CASES_FILE)
VARIABLES tid, verdict
Abs(c) == [k \in DOMAIN c |-> [id |-> k, wires |-> Range(c[k].modes), marked |-> FALSE]]
\* dom[j]: the allowed values of parameter j as a sequence of intervals <<lo, hi>> (a point is <<v, v>>); time-domain gates carry
\* one entry per (argument, time bin)
InRange(c) == \A k \in DOMAIN c.compiled : \A j \in DOMAIN c.compiled[k].p :
                 \E i \in DOMAIN c.compiled[k].dom[j] :
                    c.compiled[k].dom[j][i][1] <= c.compiled[k].p[j] /\ c.compiled[k].p[j] <= c.compiled[k].dom[j][i][2]
Verdict(c) ==
   IF c.bins > c.maxbins THEN "TooManyTimeBins"
   ELSE IF Len(c.compiled) # Len(c.template) THEN "GateCountDiffersFromLayout"
   ELSE IF ~(/\ Len(c.perm) = Len(c.template)
             /\ \A k \in DOMAIN c.perm : c.perm[k] \in DOMAIN c.template
             /\ \A k, l \in DOMAIN c.perm : k # l => c.perm[k] # c.perm[l]) THEN "NotAnInstanceOfLayout"
   ELSE IF \E k \in DOMAIN c.compiled : c.compiled[k].name # c.template[c.perm[k]].name THEN "GateDiffersFromLayout"
   ELSE IF \E k \in DOMAIN c.compiled : c.compiled[k].modes # c.template[c.perm[k]].modes THEN "ModesDifferFromLayout"
   ELSE IF LET a == Abs(c.template) IN ~Legal(a, [k \in DOMAIN c.perm |-> a[c.perm[k]]]) THEN "OrderDiffersFromLayout"
   ELSE IF ~InRange(c) THEN "ParameterOutOfRange"
   ELSE "accepted"
Init == tid \in DOMAIN Cases /\ verdict = Verdict(Cases[tid])
Next == UNCHANGED <<tid, verdict>>
Spec == Init /\ [][Next]_<<tid, verdict>>
Report == PrintT(ToJson([tid |-> tid, verdict |-> verdict]))
=============================================================================
