----------------------------- MODULE MC_Borealis -----------------------------
(***************************************************************************)
(* C12 (time-domain devices): the Borealis compilation pipeline as a state *)
(* machine, one action per step of the code:                               *)
(*   Prepare     (optional) tdm.utils.make_phases_compatible on the user's *)
(*               gate arguments                                            *)
(*   Insert      Borealis.compile: a loop-offset gate the user did not     *)
(*               write is inserted (compiler-owned), one the user wrote is *)
(*               kept (user-owned)                                         *)
(*   Loop(l)     Borealis.update_params, iteration l: compensate the phase *)
(*               gates of loop l for the loop offsets                      *)
(*   Replace     _replace_loop_offset_params: compiler-owned offsets get   *)
(*               the certificate's value                                   *)
(* UserRule selects what iteration l does for a user-owned offset:         *)
(*   "continue"     nothing (the code before the fix: TLC finds the        *)
(*                  counterexample, see selftest)                          *)
(*   "rereference"  the loop's own correction is zero but its phase gates  *)
(*                  are still re-referenced to the previous loop's frame   *)
(* Properties: the compiled setting is inside the modulator range and      *)
(* Equivalent to the source -- or a rotation by pi was forced in loops 1,2 *)
(* (warned) and it is equivalent modulo pi; after Prepare no rotation is   *)
(* forced.                                                                 *)
(***************************************************************************)
EXTENDS Borealis, TLC, Json
CONSTANTS M, T, Delays, Thetas, PhiVals, UserVal, UserRule, ClsMode, WithPrepare, SparseSrc, EMIT
VARIABLES pc, src, raw, theta, user, cls, phi, prev, off, warned, prepared

D123 == <<1, 2, 3>>
D124 == <<1, 2, 4>>
D12  == <<1, 2>>
vars == <<pc, src, raw, theta, user, cls, phi, prev, off, warned, prepared>>
NL == Len(Delays)
ClsOf(mode) == CASE mode = "mixing" -> [l \in 1 .. NL |-> [j \in 1 .. T |-> "M"]]
                 [] mode = "open"   -> [l \in 1 .. NL |-> [j \in 1 .. T |-> IF j <= Delays[l] THEN "T" ELSE "M"]]   \* borealis_gbs
                 [] mode = "mixed"  -> [l \in 1 .. NL |-> [j \in 1 .. T |-> IF (j + l) % 3 = 0 THEN "R" ELSE IF (j + l) % 3 = 1 THEN "T" ELSE "M"]]
Net == [T |-> T, delays |-> Delays, sq |-> [j \in 1 .. T |-> TRUE], cls |-> cls]

Init == /\ src \in [1 .. NL -> [1 .. T -> PhiVals]]
        /\ (SparseSrc => Cardinality({<<l, j>> \in (1 .. NL) \X (1 .. T) : src[l][j] # 0}) <= 2)
        /\ raw = src
        /\ theta \in [1 .. NL -> Thetas]
        /\ user \in [1 .. NL -> BOOLEAN]
        /\ cls = ClsOf(ClsMode)
        /\ prepared \in (IF WithPrepare THEN BOOLEAN ELSE {FALSE})
        /\ (prepared => \A l \in 1 .. NL : ~user[l])
        /\ pc = IF prepared THEN "prepare" ELSE "insert"
        /\ phi = src /\ prev = Zeros(T) /\ off = [l \in 1 .. NL |-> 0] /\ warned = FALSE

\* tdm.utils.make_phases_compatible: the *source* is changed (with a warning of its own) so that no rotation will be forced later
PrepLoop(p, l, pv) == LET corr == Corr(theta[l], Delays[l], T)
                          x == Raw(p[l], corr, pv, M)
                      IN [j \in 1 .. T |-> IF l = 1 \/ InRng(x[j], M) THEN p[l][j] ELSE Cent(p[l][j] + Half(M), M)]
Prepare == /\ pc = "prepare"
           /\ LET np == [l \in 1 .. NL |-> PrepLoop(src, l, IF l = 1 THEN Zeros(T) ELSE Corr(theta[l - 1], Delays[l - 1], T))]
              IN src' = np /\ phi' = np
           /\ pc' = "insert" /\ UNCHANGED <<raw, theta, user, cls, prev, off, warned, prepared>>

\* offsets: user-owned ones are part of the source program (value UserVal), the others are free until Replace
Insert == /\ pc = "insert"
          /\ off' = [l \in 1 .. NL |-> IF user[l] THEN UserVal ELSE 0]
          /\ pc' = "loop1" /\ UNCHANGED <<src, raw, theta, user, cls, phi, prev, warned, prepared>>

LoopName(l) == CASE l = 1 -> "loop1" [] l = 2 -> "loop2" [] l = 3 -> "loop3" [] OTHER -> "replace"
Loop(l) == /\ pc = LoopName(l)
           /\ pc' = IF l = NL THEN "replace" ELSE LoopName(l + 1)
           /\ IF user[l] /\ UserRule = "continue"
              THEN UNCHANGED <<phi, prev, warned>>
              ELSE LET corr == IF user[l] THEN Zeros(T) ELSE Corr(theta[l], Delays[l], T)
                       x == Raw(phi[l], corr, prev, M)
                   IN /\ phi' = [phi EXCEPT ![l] = Clip(x, M)]
                      /\ prev' = corr
                      /\ warned' = (warned \/ (l # 1 /\ \E j \in 1 .. T : ~InRng(x[j], M)))
           /\ UNCHANGED <<src, raw, theta, user, cls, off, prepared>>

Replace == /\ pc = "replace"
           /\ off' = [l \in 1 .. NL |-> IF user[l] THEN off[l] ELSE theta[l]]
           /\ pc' = "done" /\ UNCHANGED <<src, raw, theta, user, cls, phi, prev, warned, prepared>>

Next == Prepare \/ Insert \/ (\E l \in 1 .. NL : Loop(l)) \/ Replace \/ (pc = "done" /\ UNCHANGED vars)
Spec == Init /\ [][Next]_vars

\* source offsets: the user's own (user-owned) or none (an ideal loop)
SrcOff == [l \in 1 .. NL |-> IF user[l] THEN UserVal ELSE 0]
DPhi == [l \in 1 .. NL |-> [j \in 1 .. T |-> phi[l][j] - src[l][j]]]
DOff == [l \in 1 .. NL |-> off[l] - SrcOff[l]]
Done == pc = "done"

InModulatorRange == Done => \A l \in 1 .. NL : \A j \in 1 .. T : InRng(phi[l][j], M)
PreservesStatistics == Done =>
      \/ Equivalent(Net, DPhi, DOff, M) = "accepted"
      \/ warned /\ EquivalentModPi(Net, DPhi, DOff, M) = "accepted"
PreparedNeverForced == (Done /\ prepared) => ~warned /\ Equivalent(Net, DPhi, DOff, M) = "accepted"
\* non-vacuity witnesses (expected to be violated: used by the selftest / coverage notes)
NeverWarned == Done => ~warned
EmitInv == (EMIT /\ Done) => PrintT(ToJson([T |-> T, delays |-> Delays, M |-> M, src |-> src, theta |-> theta, user |-> user, userval |-> UserVal,
                                             cls |-> cls, prepared |-> prepared, raw_src |-> raw, model_phi |-> phi, model_off |-> off, model_warned |-> warned]))
=============================================================================
