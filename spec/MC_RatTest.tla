----------------------------- MODULE MC_RatTest -----------------------------
(* Self-test of Rat: field laws on a grid of small rationals.  Run twice by `check --selftest`: with the
   TLA+ definitions only, and with overrides/Rat.java; both must succeed and print the same digest. *)
EXTENDS Rat, TLC
Vals == {Q(n, d) : n \in -3 .. 3, d \in 1 .. 4}
ASSUME \A a \in Vals : IsRat(a)
ASSUME \A a, b \in Vals : RAdd(a, b) = RAdd(b, a) /\ RMul(a, b) = RMul(b, a) /\ RSub(RAdd(a, b), b) = a
ASSUME \A a, b, c \in Vals : RMul(a, RAdd(b, c)) = RAdd(RMul(a, b), RMul(a, c))
ASSUME \A a \in Vals : ~RIsZero(a) => RMul(a, RInv(a)) = One /\ RDiv(One, a) = RInv(a)
ASSUME \A a, b \in Vals : RLe(a, b) \/ RLt(b, a)
ASSUME \A a \in Vals : RSign(a) = RSign(RMul(a, Q(7, 3))) /\ RSq(a) = RMul(a, a) /\ RNeg(RNeg(a)) = a
ASSUME Dot(<<Q(1, 2), Q(2, 3)>>, <<Q(3, 4), Q(-1, 5)>>) = Q(29, 120)
ASSUME Det(<< <<Q(1, 2), Q(1, 3)>>, <<Q(1, 4), Q(1, 5)>> >>) = Q(1, 60)
ASSUME Det(<< <<Zero, One, Zero>>, <<One, Zero, Zero>>, <<Zero, Zero, Q(5, 1)>> >>) = Q(-5, 1)
ASSUME MatMul(Inv2(<< <<Q(1, 2), Q(1, 3)>>, <<Q(1, 4), Q(1, 5)>> >>), << <<Q(1, 2), Q(1, 3)>>, <<Q(1, 4), Q(1, 5)>> >>) = IdM(2)
ASSUME PrintT(<<"digest", RAdd(Q(355, 113), RMul(Q(22, 7), Q(-9, 11))), Det(<< <<Q(2, 3), Q(1, 7)>>, <<Q(5, 9), Q(4, 1)>> >>)>>)
VARIABLE x
Init == x = 0
Next == UNCHANGED x
=============================================================================
