------------------------------ MODULE Borealis ------------------------------
(***************************************************************************)
(* Time-domain loop devices (Borealis): a train of T squeezed time bins    *)
(* passes three delay loops.  At loop l, bin j is rotated by phi[l][j],    *)
(* meets on a beamsplitter the light that entered the loop d[l] bins       *)
(* earlier, and the part that enters the loop picks up the loop's          *)
(* intrinsic phase off[l] on the way round.                                *)
(*                                                                         *)
(* All phases are integers modulo M (multiples of 2 pi / M, M = 2 mod 4 so *)
(* that pi is on the lattice and pi/2 -- the modulator limit -- is not).   *)
(*                                                                         *)
(* Two settings (phi, off) of the same network give the same photon        *)
(* statistics iff their transfer matrices satisfy  A' = D A E  with D a    *)
(* diagonal of output phases (invisible to photon counting) and E a        *)
(* diagonal of signs at the inputs (squeezed vacuum is invariant under a   *)
(* rotation by pi).  For beamsplitters in general position this holds iff  *)
(* every path p from input i to output o has                               *)
(*     phase'(p) - phase(p) = f[o] + e[i],   e[i] \in {0, M/2}.            *)
(* PathDiffs computes, by dynamic programming over the network, the set of *)
(* pairs <<i, phase' - phase>> over all paths arriving at every output;    *)
(* Solve decides the existence of f and e by union-find with parities.     *)
(* Degenerate beamsplitters are handled exactly by classes: "T" (theta =   *)
(* 0: everything into the loop, loop content out), "R" (theta = pi/2:      *)
(* straight through, loop content stays), "M" (mixing).  Vacuum inputs     *)
(* carry no paths.                                                         *)
(***************************************************************************)
EXTENDS Integers, Sequences, FiniteSets, SequencesExt, TLC

Half(M)    == M \div 2
Cent(x, M) == LET y == x % M IN IF 2 * y > M THEN y - M ELSE y      \* representative in (-M/2, M/2]
InRng(x, M) == 4 * x <= M /\ 4 * x >= -M                            \* |x| <= pi/2, x centred

ShiftSet(S, k, M) == TLCEval({ <<p[1], (p[2] + k) % M>> : p \in S })   \* TLCEval: no towers of lazy values

\* one loop: in = sequence of path sets arriving at the loop; returns the sequence leaving it towards the next loop
RECURSIVE StageGo(_, _, _, _)
StageGo(x, j, out, loopin) ==
   IF j > x.T THEN out
   ELSE LET a  == ShiftSet(x.in[j], x.dphi[j], x.M)
            L  == IF j - x.d >= 1 THEN loopin[j - x.d] ELSE {}
            o  == CASE x.cls[j] = "T" -> L  [] x.cls[j] = "R" -> a  [] OTHER -> TLCEval(a \cup L)
            nl == CASE x.cls[j] = "T" -> a  [] x.cls[j] = "R" -> L  [] OTHER -> TLCEval(a \cup L)
        IN StageGo(x, j + 1, Append(out, o), Append(loopin, ShiftSet(nl, x.doff, x.M)))
Stage(T, d, in, dphi, doff, cls, M) ==
   StageGo([T |-> T, d |-> d, in |-> in, dphi |-> dphi, doff |-> doff, cls |-> cls, M |-> M], 1, << >>, << >>)

\* n : [T, delays, sq (nonzero squeezing per bin), cls (3 sequences of classes)]
\* dphi[l][j], doff[l] : compiled minus source, M : modulus
RECURSIVE Through(_, _, _, _, _, _)
Through(n, dphi, doff, M, l, in) ==
   IF l > Len(n.delays) THEN in
   ELSE Through(n, dphi, doff, M, l + 1, Stage(n.T, n.delays[l], in, dphi[l], doff[l], n.cls[l], M))
PathDiffs(n, dphi, doff, M) ==
   Through(n, dphi, doff, M, 1, [j \in 1 .. n.T |-> IF n.sq[j] THEN {<<j, 0>>} ELSE {}])

\* union-find with parities over the inputs: rep[i] = <<root, e[i] - e[root]>>
RECURSIVE SolveK(_, _, _, _, _)
SolveK(rep, s, k, Amb, M) ==            \* s: sequence of <<i, d>> at one output, s[1] the anchor
   IF k > Len(s) THEN [ok |-> TRUE, rep |-> rep, why |-> "accepted"]
   ELSE LET c  == (s[k][2] - s[1][2]) % M
            ra == rep[s[1][1]]
            rb == rep[s[k][1]]
        IN IF c \notin Amb THEN [ok |-> FALSE, rep |-> rep, why |-> "PathPhasesDiffer"]
           ELSE IF ra[1] = rb[1]
                THEN IF (rb[2] - ra[2] - c) % M = 0 THEN SolveK(rep, s, k + 1, Amb, M)
                     ELSE [ok |-> FALSE, rep |-> rep, why |-> "InputSignsInconsistent"]
                ELSE SolveK(TLCEval([y \in DOMAIN rep |-> IF rep[y][1] = rb[1]
                                                              THEN <<ra[1], (rep[y][2] - rb[2] + ra[2] + c) % M>>
                                                              ELSE rep[y]]), s, k + 1, Amb, M)
RECURSIVE SolveO(_, _, _, _, _)
SolveO(rep, out, o, Amb, M) ==
   IF o > Len(out) THEN "accepted"
   ELSE IF out[o] = {} THEN SolveO(rep, out, o + 1, Amb, M)
   ELSE IF Cardinality({p[1] : p \in out[o]}) # Cardinality(out[o]) THEN "PathPhasesDiffer"   \* two paths i -> o disagree
   ELSE LET r == SolveK(rep, SetToSeq(out[o]), 2, Amb, M)
        IN IF r.ok THEN SolveO(r.rep, out, o + 1, Amb, M) ELSE r.why

\* same statistics exactly (up to output phases and input signs)
Equivalent(n, dphi, doff, M) ==
   SolveO(TLCEval([i \in 1 .. n.T |-> <<i, 0>>]), PathDiffs(n, dphi, doff, M), 1, {0, Half(M)}, M)
\* same statistics if rotations by pi at individual phase gates are disregarded (everything modulo pi)
EquivalentModPi(n, dphi, doff, M) ==
   SolveO(TLCEval([i \in 1 .. n.T |-> <<i, 0>>]), PathDiffs(n, dphi, doff, Half(M)), 1, {0}, Half(M))

\*--------------------------------------------------------------------------
\* the documented compensation rule (Borealis.update_params), one loop at a time
\*--------------------------------------------------------------------------
Corr(theta, d, T) == [j \in 1 .. T |-> theta * ((j - 1) \div d)]
Raw(phi, corr, prev, M)  == [j \in DOMAIN phi |-> Cent(phi[j] + corr[j] - prev[j], M)]
Clip(x, M) == [j \in DOMAIN x |-> IF InRng(x[j], M) THEN x[j] ELSE Cent(x[j] + Half(M), M)]
Zeros(T) == [j \in 1 .. T |-> 0]
=============================================================================
