-------------------------------- MODULE MC_Cat --------------------------------
(***************************************************************************)
(* Non-Gaussian states as linear combinations of Gaussians with symbolic   *)
(* weights (C01, C07 beyond the Gaussian family).                          *)
(* A cat state (|alpha> + e^{i pi p} |-alpha>)/N on mode 0 is the combination *)
(*    w1 G(r+) + w2 G(-r+) + w3 G(rc) + w4 G(conj rc),   r+ = 2 (Re a, Im a), *)
(*    rc = 2 (i Im a, -i Re a)        (hbar = 2; all four with covariance I)  *)
(* with weights N (1, 1, c, conj c), c = exp(-2|alpha|^2 - i pi p): the      *)
(* weights are irrational and stay symbolic -- the harness evaluates them -- *)
(* but every Gaussian operation acts on all components alike: linearly on   *)
(* the (complex rational) mean of each component and on the shared          *)
(* covariance.  TLC computes the component means (real and imaginary parts) *)
(* and the covariance exactly for every program; moments of any parity p    *)
(* follow as  <r> = sum w_k mu_k,  Cov = V + sum w_k mu_k mu_k^T - <r><r>^T. *)
(* TLC checks: the covariance stays physical, the component means stay      *)
(* pairwise (mu_2 = -mu_1, mu_4 = conj mu_3) under every operation.         *)
(***************************************************************************)
EXTENDS Ops, TLC, Json
CONSTANTS Depth, ANum, ADen, EMIT
VARIABLES hist, re, im, V
vars == <<hist, re, im, V>>
K == One
NMc == 2
a345  == <<Q(3, 5), Q(4, 5)>>
am345 == <<Q(-3, 5), Q(4, 5)>>
Amp   == Q(ANum, ADen)
CatAngles == <<A0, a345, APi2>>
ModesC == <<0, 1>>
St(mu) == [modes |-> ModesC, mu |-> mu, V |-> V]
\* homogeneous part of an operation (what acts on the imaginary part of a mean and on differences of means)
Hom(st, op) == IF op.name \in DispNames THEN st ELSE Apply(st, op, K)
One1(m) == << Op("Rgate", <<a345>>, <<m>>), Op("Sgate", <<Q(4, 3), am345>>, <<m>>), Op("Dgate", <<Q(1, 2), a345>>, <<m>>),
              Op("LossChannel", <<Q(4, 5)>>, <<m>>), Op("Fouriergate", <<>>, <<m>>), Op("Xgate", <<Q(1, 2)>>, <<m>>) >>
Two1 == << Op("BSgate", <<a345, APi2>>, <<0, 1>>), Op("BSgate", <<a345, A0>>, <<1, 0>>), Op("S2gate", <<Q(4, 3), A0>>, <<1, 0>>),
           Op("MZgate", <<a345, APi2>>, <<0, 1>>) >>
Alphabet == One1(0) \o One1(1) \o Two1
Mean0(th) == LET c == RMul(Two, RMul(Amp, th[1]))  s == RMul(Two, RMul(Amp, th[2])) IN
             [re |-> << <<c, Zero, s, Zero>>, <<RNeg(c), Zero, RNeg(s), Zero>>, ZeroV(4), ZeroV(4) >>,
              im |-> << ZeroV(4), ZeroV(4), <<s, Zero, RNeg(c), Zero>>, <<RNeg(s), Zero, c, Zero>> >>]
Init == /\ \E i \in 1 .. Len(CatAngles) :
              /\ hist = << [name |-> "Catstate", p |-> <<Amp, CatAngles[i]>>, modes |-> <<0>>, dag |-> FALSE] >>
              /\ re = Mean0(CatAngles[i]).re /\ im = Mean0(CatAngles[i]).im
        /\ V = IdM(4)
Step(op) == /\ Len(hist) - 1 < Depth
            /\ hist' = Append(hist, op)
            /\ re' = [k \in 1 .. 4 |-> Apply(St(re[k]), op, K).mu]
            /\ im' = [k \in 1 .. 4 |-> Hom(St(im[k]), op).mu]
            /\ V' = Apply(St(re[1]), op, K).V
Next == \E i \in 1 .. Len(Alphabet) : Step(Alphabet[i])
Spec == Init /\ [][Next]_vars
CovPhysical == IsSymmetric(V) /\ ModeUncertainty(St(re[1]))
\* the structure of the combination is preserved by every Gaussian operation
Paired == /\ VecAdd(re[1], re[2]) = VecAdd(re[3], re[4])          \* both pairs are centred on the same (displaced) point
          /\ im[1] = ZeroV(4) /\ im[2] = ZeroV(4) /\ im[4] = [i \in 1 .. 4 |-> RNeg(im[3][i])] /\ re[3] = re[4]
EmitInv == EMIT => PrintT(ToJson([hist |-> hist, re |-> re, im |-> im, V |-> V, amp |-> Amp]))
=============================================================================
