-------------------------------- MODULE MC_Cat --------------------------------
(***************************************************************************)
(* Non-Gaussian states as linear combinations of Gaussians with symbolic   *)
(* weights (C01, C07 beyond the Gaussian family).                          *)
(* A cat state (|alpha> + e^{i pi p} |-alpha>)/N on mode 0 is the combination *)
(*    w1 G(r+) + w2 G(-r+) + w3 G(rc) + w4 G(conj rc),   r+ = 2 (Re a, Im a), *)
(*    rc = 2 (i Im a, -i Re a)        (hbar = 2; all four with covariance I)  *)
(* with weights N (1, 1, c, conj c), c = exp(-2|alpha|^2 - i pi p): the      *)
(* weights are irrational and stay symbolic -- the harness evaluates them -- *)
(* but every Gaussian operation acts on all components alike: linearly on   *)
(* the (complex rational) mean of each component and on the shared          *)
(* covariance.  TLC computes the component means (real and imaginary parts) *)
(* and the covariance exactly for every program; moments of any parity p    *)
(* follow as  <r> = sum w_k mu_k,  Cov = V + sum w_k mu_k mu_k^T - <r><r>^T. *)
(* TLC checks: the covariance stays physical, the component means stay      *)
(* pairwise (mu_2 = -mu_1, mu_4 = conj mu_3) under every operation.         *)
(***************************************************************************)
EXTENDS Ops, TLC, Json
CONSTANTS Depth, ANum, ADen, MeasMode, EMIT
VARIABLES hist, re, im, V, lw, done
vars == <<hist, re, im, V, lw, done>>
K == One
NMc == 2
a345  == <<Q(3, 5), Q(4, 5)>>
am345 == <<Q(-3, 5), Q(4, 5)>>
Amp   == Q(ANum, ADen)
CatAngles == <<A0, a345, APi2>>
ModesC == <<0, 1>>
St(mu) == [modes |-> ModesC, mu |-> mu, V |-> V]
\* homogeneous part of an operation (what acts on the imaginary part of a mean and on differences of means)
Hom(st, op) == IF op.name \in DispNames THEN st ELSE Apply(st, op, K)
One1(m) == << Op("Rgate", <<a345>>, <<m>>), Op("Sgate", <<Q(4, 3), am345>>, <<m>>), Op("Dgate", <<Q(1, 2), a345>>, <<m>>),
              Op("LossChannel", <<Q(4, 5)>>, <<m>>), Op("Fouriergate", <<>>, <<m>>), Op("Xgate", <<Q(1, 2)>>, <<m>>) >>
Two1 == << Op("BSgate", <<a345, APi2>>, <<0, 1>>), Op("BSgate", <<a345, A0>>, <<1, 0>>), Op("S2gate", <<Q(4, 3), A0>>, <<1, 0>>),
           Op("MZgate", <<a345, APi2>>, <<0, 1>>) >>
Alphabet == One1(0) \o One1(1) \o Two1
Mean0(th) == LET c == RMul(Two, RMul(Amp, th[1]))  s == RMul(Two, RMul(Amp, th[2])) IN
             [re |-> << <<c, Zero, s, Zero>>, <<RNeg(c), Zero, RNeg(s), Zero>>, ZeroV(4), ZeroV(4) >>,
              im |-> << ZeroV(4), ZeroV(4), <<s, Zero, RNeg(c), Zero>>, <<RNeg(s), Zero, c, Zero>> >>]
Init == /\ \E i \in 1 .. Len(CatAngles) :
              /\ hist = << [name |-> "Catstate", p |-> <<Amp, CatAngles[i]>>, modes |-> <<0>>, dag |-> FALSE] >>
              /\ re = Mean0(CatAngles[i]).re /\ im = Mean0(CatAngles[i]).im
        /\ V = IdM(4) /\ done = FALSE /\ lw = [k \in 1 .. 4 |-> <<Zero, Zero>>]
Step(op) == /\ Len(hist) - 1 < Depth /\ ~done /\ UNCHANGED <<lw, done>>
            /\ hist' = Append(hist, op)
            /\ re' = [k \in 1 .. 4 |-> Apply(St(re[k]), op, K).mu]
            /\ im' = [k \in 1 .. 4 |-> Hom(St(im[k]), op).mu]
            /\ V' = Apply(St(re[1]), op, K).V
\* ---- a post-selected measurement (C06): every component is conditioned like a Gaussian state -- its mean moves by the gain
\* times the (complex) innovation, the shared covariance by the Schur complement -- and its weight is multiplied by the value of
\* its (complex) Gaussian density at the outcome, exp(lw).  TLC computes the exponent exactly (real and imaginary part).
HomAngles == <<A0, a345, APi2>>
HomVals   == <<Q(1, 2), Q(-3, 4)>>
HetVals   == << <<Q(1, 4), Q(-1, 2)>>, <<Zero, Q(1, 2)>> >>
MeasHom(m, a, x0) ==
   /\ MeasMode = "final" /\ ~done /\ done' = TRUE
   /\ hist' = Append(hist, [name |-> "MeasureHomodyne", p |-> <<a, x0>>, modes |-> <<m>>, dag |-> FALSE])
   /\ re' = [k \in 1 .. 4 |-> Homodyne(St(re[k]), m, a, x0).mu]
   /\ im' = [k \in 1 .. 4 |-> Homodyne(St(im[k]), m, a, Zero).mu]
   /\ V' = Homodyne(St(re[1]), m, a, x0).V
   /\ lw' = [k \in 1 .. 4 |->
              LET s  == HomBornVar(St(re[k]), m, a)
                  d  == RSub(x0, HomBornMean(St(re[k]), m, a))
                  mi == HomBornMean(St(im[k]), m, a)
              IN  <<RNeg(RDiv(RSub(RSq(d), RSq(mi)), RMul(Two, s))), RDiv(RMul(d, mi), s)>>]
BiForm(B, u, v) == Dot(u, MatVec(B, v))
MeasHet(m, al) ==
   /\ MeasMode = "final" /\ ~done /\ done' = TRUE
   /\ hist' = Append(hist, [name |-> "MeasureHeterodyne", p |-> <<al>>, modes |-> <<m>>, dag |-> FALSE])
   /\ re' = [k \in 1 .. 4 |-> Heterodyne(St(re[k]), m, al).mu]
   /\ im' = [k \in 1 .. 4 |-> Heterodyne(St(im[k]), m, <<Zero, Zero>>).mu]
   /\ V' = Heterodyne(St(re[1]), m, al).V
   /\ lw' = [k \in 1 .. 4 |->
              LET Bi == Inv2(HetBornCov(St(re[k]), m))
                  mr == HetBornMean(St(re[k]), m)
                  mi == HetBornMean(St(im[k]), m)
                  dr == <<RSub(RMul(Two, al[1]), mr[1]), RSub(RMul(Two, al[2]), mr[2])>>
                  di == <<RNeg(mi[1]), RNeg(mi[2])>>
              IN  <<RMul(Q(-1, 2), RSub(BiForm(Bi, dr, dr), BiForm(Bi, di, di))), RNeg(BiForm(Bi, dr, di))>>]
Next == \/ \E i \in 1 .. Len(Alphabet) : Step(Alphabet[i])
        \/ \E m \in {0, 1}, i \in 1 .. Len(HomAngles), j \in 1 .. Len(HomVals) : MeasHom(m, HomAngles[i], HomVals[j])
        \/ \E m \in {0, 1}, j \in 1 .. Len(HetVals) : MeasHet(m, HetVals[j])
Spec == Init /\ [][Next]_vars
CovPhysical == IsSymmetric(V) /\ ModeUncertainty(St(re[1]))
\* the structure of the combination is preserved by every Gaussian operation
Paired == /\ VecAdd(re[1], re[2]) = VecAdd(re[3], re[4])          \* both pairs are centred on the same (displaced) point
          /\ im[1] = ZeroV(4) /\ im[2] = ZeroV(4) /\ im[4] = [i \in 1 .. 4 |-> RNeg(im[3][i])] /\ re[3] = re[4]
\* the measured mode is left in the vacuum, uncorrelated: every component mean vanishes there
MeasuredModeReset == done => LET m == hist[Len(hist)].modes[1]  i == m + 1 IN
                        /\ \A k \in 1 .. 4 : re[k][i] = Zero /\ re[k][i + 2] = Zero /\ im[k][i] = Zero /\ im[k][i + 2] = Zero
                        /\ V[i][i] = One /\ V[i + 2][i + 2] = One /\ V[i][i + 2] = Zero
EmitInv == (EMIT /\ (MeasMode = "none" \/ done)) => PrintT(ToJson([hist |-> hist, re |-> re, im |-> im, V |-> V, amp |-> Amp, lw |-> lw]))
=============================================================================
