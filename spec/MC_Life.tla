------------------------------ MODULE MC_Life ------------------------------
(***************************************************************************)
(* Life cycle of Program objects (strawberryfields/program.py, ops.py,     *)
(* program_utils.Program_current_context): which calls may change a        *)
(* program, and which must be refused.                                     *)
(*                                                                         *)
(* State: a few program slots, the single global context, and for every    *)
(* program its lock, the length of its circuit and the activity flags of   *)
(* its register references.  One action per public call; a call that the   *)
(* library must refuse is an action too: it records the class of the       *)
(* error and changes nothing.  Every history of calls up to Depth is a     *)
(* distinct state (hist), and is replayed call by call into the real       *)
(* objects by harness/p_life.py, which compares the projected state after  *)
(* every call and the class of every error (direction A).                  *)
(*                                                                         *)
(* Properties checked here:                                                *)
(*   LockedIsFrozen   a locked program never changes again (circuit,       *)
(*                    register, lock) - action property                    *)
(*   RefusalsChangeNothing  a refused call changes no program, nor the     *)
(*                    context                                              *)
(*   SourceFlat       the source of a derived (compiled / optimised)       *)
(*                    program is an original, and both are locked          *)
(*   CtxValid         the context is empty or an existing program          *)
(*   ParentLocked     a program that has a successor is locked             *)
(***************************************************************************)
EXTENDS Naturals, Sequences, FiniteSets, TLC, Json
CONSTANTS NP,       \* number of program slots
          MaxReg,   \* bound on the number of register references of one program
          Depth,    \* length of the call histories
          EMIT
VARIABLES prog, ctx, eng, hist, trail
vars == <<prog, ctx, eng, hist, trail>>

Slots   == 1 .. NP
Absent  == [ex |-> FALSE, locked |-> FALSE, len |-> 0, reg |-> << >>, init |-> << >>, src |-> 0, parent |-> 0, derived |-> FALSE]
Present(p) == prog[p].ex
Free    == {s \in Slots : ~Present(s)}
NextFree == CHOOSE s \in Free : \A t \in Free : s <= t

Act(name, args, res) == [act |-> name, args |-> args, res |-> res]
\* every action records the call, its expected outcome and the state it must leave behind
Log(name, args, res) == /\ hist' = Append(hist, Act(name, args, res))
                        /\ trail' = Append(trail, [prog |-> prog', ctx |-> ctx', eng |-> eng'])

NoEngine == [used |-> FALSE, reg |-> << >>]
Init == /\ prog = [s \in Slots |-> Absent] /\ ctx = 0 /\ eng = NoEngine /\ hist = << >> /\ trail = << >>

\* ---- constructors ------------------------------------------------------------------------
Create(n) == /\ Free # {}
             /\ prog' = [prog EXCEPT ![NextFree] = [Absent EXCEPT !.ex = TRUE, !.reg = [i \in 1 .. n |-> TRUE], !.init = [i \in 1 .. n |-> TRUE]]]
             /\ UNCHANGED <<ctx, eng>> /\ Log("Create", <<NextFree, n>>, "ok")
\* Program(parent): the parent is locked, the successor starts from the parent's register state (own references)
Child(p)  == /\ Free # {} /\ Present(p)
             /\ prog' = [prog EXCEPT ![p].locked = TRUE,
                                     ![NextFree] = [Absent EXCEPT !.ex = TRUE, !.reg = prog[p].reg, !.init = prog[p].reg, !.parent = p]]
             /\ UNCHANGED <<ctx, eng>> /\ Log("Child", <<NextFree, p>>, "ok")
\* compile() / optimize(): original and copy are locked and share the register; the copy points at the original source
Derive(p, how) == /\ Free # {} /\ Present(p)
                  /\ prog' = [prog EXCEPT ![p].locked = TRUE,
                                          ![NextFree] = [Absent EXCEPT !.ex = TRUE, !.locked = TRUE, !.reg = prog[p].reg, !.init = prog[p].init, !.derived = TRUE,
                                                                       !.src = IF prog[p].src = 0 THEN p ELSE prog[p].src]]
                  /\ UNCHANGED <<ctx, eng>> /\ Log(how, <<NextFree, p>>, "ok")

\* ---- the context -------------------------------------------------------------------------
Enter(p) == /\ Present(p) /\ UNCHANGED eng
            /\ IF ctx = 0 THEN ctx' = p /\ UNCHANGED prog /\ Log("Enter", <<p>>, "ok")
                          ELSE UNCHANGED <<ctx, prog>> /\ Log("Enter", <<p>>, "RuntimeError")
Exit     == /\ ctx # 0 /\ ctx' = 0 /\ UNCHANGED <<prog, eng>> /\ Log("Exit", <<ctx>>, "ok")

\* ---- calls made inside (or wrongly outside) a context -----------------------------------------
\* a gate applied to register reference m of program p (the reference object itself is used)
RefRes(p, m) == IF ctx = 0 THEN "error"
                ELSE IF prog[ctx].locked THEN "CircuitError"
                ELSE IF ctx # p THEN "RegRefError"           \* a reference of another program
                ELSE IF ~prog[p].reg[m] THEN "RegRefError"   \* deleted
                ELSE "ok"
GateRef(p, m) == /\ Present(p) /\ m \in 1 .. Len(prog[p].reg)
                 /\ prog' = IF RefRes(p, m) = "ok" THEN [prog EXCEPT ![p].len = @ + 1] ELSE prog
                 /\ UNCHANGED <<ctx, eng>> /\ Log("GateRef", <<p, m>>, RefRes(p, m))
\* a gate / deletion addressed by integer index: it goes to whichever program owns the context
IntRes(m) == IF ctx = 0 THEN "error"
             ELSE IF prog[ctx].locked THEN "CircuitError"
             ELSE IF m > Len(prog[ctx].reg) THEN "RegRefError"
             ELSE IF ~prog[ctx].reg[m] THEN "RegRefError"
             ELSE "ok"
GateInt(m) == /\ m \in 1 .. MaxReg
              /\ prog' = IF IntRes(m) = "ok" THEN [prog EXCEPT ![ctx].len = @ + 1] ELSE prog
              /\ UNCHANGED <<ctx, eng>> /\ Log("GateInt", <<m>>, IntRes(m))
DelInt(m)  == /\ m \in 1 .. MaxReg
              /\ prog' = IF IntRes(m) = "ok" THEN [prog EXCEPT ![ctx].len = @ + 1, ![ctx].reg[m] = FALSE] ELSE prog
              /\ UNCHANGED <<ctx, eng>> /\ Log("DelInt", <<m>>, IntRes(m))
NewRes == IF ctx = 0 THEN "RuntimeError" ELSE IF prog[ctx].locked THEN "CircuitError" ELSE "ok"
NewMode == /\ (ctx # 0 => Len(prog[ctx].reg) < MaxReg)
           /\ prog' = IF NewRes = "ok" THEN [prog EXCEPT ![ctx].len = @ + 1, ![ctx].reg = Append(@, TRUE)] ELSE prog
           /\ UNCHANGED <<ctx, eng>> /\ Log("New", << >>, NewRes)

\* ---- locking -----------------------------------------------------------------------------
Lock(p) == /\ Present(p) /\ ~prog[p].locked
           /\ prog' = [prog EXCEPT ![p].locked = TRUE] /\ UNCHANGED <<ctx, eng>> /\ Log("Lock", <<p>>, "ok")
\* running on a fresh engine locks the program and changes nothing else
Run(p)  == /\ Present(p)
           /\ prog' = [prog EXCEPT ![p].locked = TRUE] /\ UNCHANGED <<ctx, eng>> /\ Log("Run", <<p>>, "ok")
\* running on the one long-lived engine: the first program starts it; a later one must begin where the previous one ended
\* (same register references, same activity flags), otherwise it is refused -- after it was compiled, i.e. locked
AllLive(r) == \A i \in DOMAIN r : r[i]
EngRes(p)  == IF ~eng.used \/ prog[p].init = eng.reg THEN "ok" ELSE "RuntimeError"
RunE(p) == /\ Present(p) /\ (~eng.used => AllLive(prog[p].init))
           /\ prog' = [prog EXCEPT ![p].locked = TRUE]
           /\ eng' = IF EngRes(p) = "ok" THEN [used |-> TRUE, reg |-> prog[p].reg] ELSE eng
           /\ UNCHANGED ctx /\ Log("RunE", <<p>>, EngRes(p))

Next == /\ Len(hist) < Depth
        /\ \/ \E n \in 1 .. 2 : Create(n)
           \/ \E p \in Slots : Child(p) \/ Derive(p, "Compile") \/ Derive(p, "Optimize") \/ Enter(p) \/ Lock(p) \/ Run(p) \/ RunE(p)
           \/ Exit \/ NewMode
           \/ \E p \in Slots : \E m \in 1 .. MaxReg : GateRef(p, m)
           \/ \E m \in 1 .. MaxReg : GateInt(m) \/ DelInt(m)
Spec == Init /\ [][Next]_vars

\* ---- properties ----------------------------------------------------------------------------
LockedIsFrozen == [][\A p \in Slots : (Present(p) /\ prog[p].locked) => prog'[p] = prog[p]]_vars
RefusalsChangeNothing == [][(hist' # hist /\ hist'[Len(hist')].res # "ok" /\ hist'[Len(hist')].act # "RunE") => (prog' = prog /\ ctx' = ctx /\ eng' = eng)]_vars
\* a refused run leaves the engine and every program as they were, except that the refused program has been locked
RefusedRunOnlyLocks == [][(hist' # hist /\ hist'[Len(hist')].res # "ok" /\ hist'[Len(hist')].act = "RunE") =>
                            (eng' = eng /\ ctx' = ctx /\ \A p \in Slots : prog'[p] = [prog[p] EXCEPT !.locked = prog'[p].locked])]_vars
\* the engine's register is always the final register of the last program it accepted
EngineFollows == [][(eng' # eng) => \E p \in Slots : Present(p) /\ eng'.reg = prog[p].reg /\ (eng.used => prog[p].init = eng.reg)]_vars
SourceFlat   == \A s \in Slots : (Present(s) /\ prog[s].src # 0) =>
                    /\ Present(prog[s].src) /\ prog[prog[s].src].src = 0 /\ prog[prog[s].src].locked /\ prog[s].locked
CtxValid     == ctx = 0 \/ Present(ctx)
ParentLocked == \A s \in Slots : (Present(s) /\ prog[s].parent # 0) => prog[prog[s].parent].locked
\* only an unlocked program that owns the context ever grows
GrowthNeedsContext == [][\A p \in Slots : (Present(p) /\ prog'[p].len # prog[p].len) => (ctx = p /\ ~prog[p].locked)]_vars

EmitInv == (EMIT /\ Len(hist) = Depth) => PrintT(ToJson([hist |-> hist, trail |-> trail]))
\* witness (expected to be violated): some history gets a program changed after another one was derived from it
NeverRefused == \A k \in 1 .. Len(hist) : hist[k].res = "ok"
=============================================================================
