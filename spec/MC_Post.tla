------------------------------- MODULE MC_Post -------------------------------
(***************************************************************************)
(* C16, sample post-processing (strawberryfields.utils.post_processing):   *)
(* for a matrix of photon-number samples (shots x modes) and an ordered    *)
(* selection of modes                                                      *)
(*    Expectation = (1/shots) sum_s prod_{m in modes} n[s][m]              *)
(*    Variance    = E[X^2] - E[X]^2  of the same product X                 *)
(*    FockProbs[pattern] = (number of shots equal to pattern) / shots,     *)
(*                         patterns over 0 .. max entry                    *)
(* TLC enumerates every sample matrix within the bounds and every ordered  *)
(* selection of distinct modes, checks the laws that tie the three         *)
(* together and emits the exact rational values for the replay.            *)
(***************************************************************************)
EXTENDS Rat, TLC, Json, FiniteSets
CONSTANTS MaxShots, NModes, MaxN, EMIT
VARIABLES samples, sel
vars == <<samples, sel>>
Shots == Len(samples)
RECURSIVE SumF(_, _, _)
SumF(F(_), lo, hi) == IF lo > hi THEN Zero ELSE RAdd(F(lo), SumF(F, lo + 1, hi))
RECURSIVE ProdSel(_, _, _)
ProdSel(row, s, k) == IF k > Len(s) THEN 1 ELSE row[s[k]] * ProdSel(row, s, k + 1)
X(s, ms) == ProdSel(samples[s], ms, 1)                           \* product over the selected modes in shot s
Expectation(ms) == LET F(s) == Z(X(s, ms)) IN RDiv(SumF(F, 1, Shots), Z(Shots))
SecondMoment(ms) == LET F(s) == Z(X(s, ms) * X(s, ms)) IN RDiv(SumF(F, 1, Shots), Z(Shots))
Variance(ms) == RSub(SecondMoment(ms), RSq(Expectation(ms)))
MaxEntry == LET S == {samples[s][m] : s \in 1 .. Shots, m \in 1 .. NModes} IN CHOOSE x \in S : \A y \in S : y <= x
Patterns == [1 .. NModes -> 0 .. MaxEntry]
Count(p) == Cardinality({s \in 1 .. Shots : \A m \in 1 .. NModes : samples[s][m] = p[m]})
Prob(p) == Q(Count(p), Shots)
\* ordered selections of distinct modes
Selections == UNION {{s \in [1 .. k -> 1 .. NModes] : \A i, j \in 1 .. k : i # j => s[i] # s[j]} : k \in 1 .. NModes}
Init == /\ \E k \in 1 .. MaxShots : samples \in [1 .. k -> [1 .. NModes -> 0 .. MaxN]]
        /\ sel \in Selections
Next == UNCHANGED vars
Spec == Init /\ [][Next]_vars
\* laws
ProbsSumToOne == LET ps == {p \in Patterns : Count(p) > 0} IN
                 LET RECURSIVE Tot(_)  Tot(S) == IF S = {} THEN 0 ELSE LET p == CHOOSE p \in S : TRUE IN Count(p) + Tot(S \ {p}) IN Tot(ps) = Shots
ExpectationFromProbs == \* the expectation of the product equals the average of the product over the empirical distribution
   LET ps == {p \in Patterns : Count(p) > 0}
       RECURSIVE Av(_)
       Av(S) == IF S = {} THEN Zero ELSE LET p == CHOOSE p \in S : TRUE IN RAdd(RMul(Prob(p), Z(ProdSel(p, sel, 1))), Av(S \ {p}))
   IN  Av(ps) = Expectation(sel)
VarianceNonNegative == RSign(Variance(sel)) >= 0
OrderIrrelevant == \A s2 \in Selections : ({s2[i] : i \in DOMAIN s2} = {sel[i] : i \in DOMAIN sel}) => Expectation(s2) = Expectation(sel)
EmitInv == EMIT => PrintT(ToJson([samples |-> samples, sel |-> sel, expectation |-> Expectation(sel), variance |-> Variance(sel),
                                   maxentry |-> MaxEntry,
                                   probs |-> LET ps == {p \in Patterns : Count(p) > 0} IN {<<p, Count(p)>> : p \in ps}]))
=============================================================================
