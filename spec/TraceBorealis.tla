---------------------------- MODULE TraceBorealis ----------------------------
(* C12, time-domain loop devices: a circuit returned by Program.compile(device=<Borealis-type device>) is judged against the
   source program and the device.  One case = one compilation (source gate arguments, certificate loop phases, user-owned loop
   offsets; compiled circuit projected to gate names / modes, gate arguments on the phase lattice Z_M, squeezing x 1000 and
   beamsplitter angles on the lattice k pi / (2 BK)).                                                                        *)
EXTENDS Borealis, TLC, Json, IOUtils
Cases == JsonDeserialize(IOEnv.CASES_FILE)
VARIABLES tid, verdict
ClsOfBS(k, BK) == IF k = 0 THEN "T" ELSE IF k = BK THEN "R" ELSE "M"
NetOf(c) == TLCEval([T |-> c.T, delays |-> c.delays, sq |-> [j \in 1 .. c.T |-> c.sq[j] # 0],
                     cls |-> [l \in 1 .. Len(c.delays) |-> [j \in 1 .. c.T |-> ClsOfBS(c.bs[l][j], c.BK)]]])
DPhiOf(c) == TLCEval([l \in 1 .. Len(c.delays) |-> [j \in 1 .. c.T |-> c.cphi[l][j] - c.sphi[l][j]]])
DOffOf(c) == TLCEval([l \in 1 .. Len(c.delays) |-> c.coff[l] - c.soff[l]])
Verdict(c) ==
   IF Len(c.ops) # Len(c.layout) THEN "GateCountDiffersFromLayout"
   ELSE IF \E k \in DOMAIN c.ops : c.ops[k].name # c.layout[k].name THEN "GateDiffersFromLayout"
   ELSE IF \E k \in DOMAIN c.ops : c.ops[k].modes # c.layout[k].modes THEN "ModesDifferFromLayout"
   ELSE IF \E k \in DOMAIN c.ops : c.ops[k].fixed # c.layout[k].fixed THEN "FixedParameterDiffersFromLayout"
   ELSE IF Len(c.cphi) # Len(c.delays) \/ \E l \in DOMAIN c.cphi : Len(c.cphi[l]) # c.T THEN "TimeBinsChanged"
   ELSE IF \E l \in DOMAIN c.cphi : \E j \in 1 .. c.T : ~InRng(c.cphi[l][j], c.M) THEN "ParameterOutOfRange"
   ELSE IF \E j \in 1 .. c.T : c.csq[j] < 0 \/ c.csq[j] > c.smax THEN "ParameterOutOfRange"
   ELSE IF \E l \in DOMAIN c.cbs : \E j \in 1 .. c.T : c.cbs[l][j] < 0 \/ c.cbs[l][j] > c.BK THEN "ParameterOutOfRange"
   ELSE IF c.csq # c.sq \/ c.cbs # c.bs THEN "ExperimentParametersChanged"
   ELSE LET eq == Equivalent(NetOf(c), DPhiOf(c), DOffOf(c), c.M) IN
        IF eq = "accepted" THEN (IF c.strict /\ c.warned THEN "PreparedProgramStillForced" ELSE "accepted")
        ELSE IF ~c.strict /\ c.warned /\ EquivalentModPi(NetOf(c), DPhiOf(c), DOffOf(c), c.M) = "accepted"
             THEN "StatisticsChangedWithWarning"
        ELSE "StatisticsDiffer"
Init == tid \in DOMAIN Cases /\ verdict = Verdict(Cases[tid])
Next == UNCHANGED <<tid, verdict>>
Spec == Init /\ [][Next]_<<tid, verdict>>
Report == PrintT(ToJson([tid |-> tid, verdict |-> verdict]))
=============================================================================
