------------------------------- MODULE MC_Meas -------------------------------
(***************************************************************************)
(* C06: for every pre-measurement state reached by the kernel model, the   *)
(* exact Born law and the exact conditional state of every dyne            *)
(* measurement (homodyne at lattice angles, heterodyne) on every mode for  *)
(* several outcomes, and the exact reduced Gaussian state of every ordered *)
(* tuple of measured modes (what a photon-number sampler must be handed).  *)
(* TLC checks on the kernel: the measured mode is left in vacuum and       *)
(* uncorrelated, the conditional state is physical, the Born variance is   *)
(* positive, and conditioning never increases the uncertainty determinant  *)
(* of the rest beyond the marginal's.                                      *)
(***************************************************************************)
EXTENDS MC_Gauss, SequencesExt
HomAngles  == <<A0, APi2, a345, am345>>
HomValues  == <<Q(1, 2), Q(-3, 4), Zero>>
HetValues  == << <<Q(1, 4), Q(-1, 2)>>, <<Zero, Zero>>, <<Q(-1, 2), Q(1, 4)>> >>
HomCase(s, m, a, x) == [kind |-> "hom", m |-> m, a |-> a, x |-> x, bmean |-> HomBornMean(s, m, a), bvar |-> HomBornVar(s, m, a),
                     post |-> Homodyne(s, m, a, x)]
HetCase(s, m, al)   == [kind |-> "het", m |-> m, al |-> al, bmean |-> HetBornMean(s, m), bcov |-> HetBornCov(s, m),
                     post |-> Heterodyne(s, m, al)]
HomCasesOf(s) == [i \in 1 .. Len(s.modes) * Len(HomAngles) * Len(HomValues) |->
               LET mi == (i - 1) \div (Len(HomAngles) * Len(HomValues))
                   r  == (i - 1) % (Len(HomAngles) * Len(HomValues))
               IN  HomCase(s, s.modes[mi + 1], HomAngles[(r \div Len(HomValues)) + 1], HomValues[(r % Len(HomValues)) + 1])]
HetCasesOf(s) == [i \in 1 .. Len(s.modes) * Len(HetValues) |->
               HetCase(s, s.modes[((i - 1) \div Len(HetValues)) + 1], HetValues[((i - 1) % Len(HetValues)) + 1])]
\* the cases are computed once per state and carried in a variable (the laws below and the emission all read them)
VARIABLE mc
HomCases == mc.hom
HetCases == mc.het
InitM == Init /\ mc = [hom |-> HomCasesOf(st), het |-> HetCasesOf(st)]
NextM == Next /\ mc' = [hom |-> HomCasesOf(st'), het |-> HetCasesOf(st')]
SpecM == InitM /\ [][NextM]_<<vars, mc>>
RECURSIVE TuplesOfM(_, _)
TuplesOfM(S, k) == IF k = 0 THEN {<< >>} ELSE {Append(t, m) : t \in TuplesOfM(S, k - 1), m \in S}
DistinctT(t)    == \A i, j \in DOMAIN t : i # j => t[i] # t[j]
MTuples         == {t \in UNION {TuplesOfM(SeqToSet(st.modes), k) : k \in 1 .. Len(st.modes)} : DistinctT(t)}
TupleCases      == [i \in 1 .. Cardinality(MTuples) |-> LET t == SetToSeq(MTuples)[i] IN [ms |-> t, red |-> Reduced(st, t)]]
EmitMeas == EMIT => PrintT(ToJson([hist |-> hist, st |-> st, hom |-> HomCases, het |-> HetCases, tuples |-> TupleCases]))

\* design-level laws of the dyne update
MeasuredModeReset == \A i \in 1 .. Len(HomCases) :
                        LET c == HomCases[i]  r == Reduced(c.post, <<c.m>>) IN
                        /\ r.mu = <<Zero, Zero>> /\ r.V = IdM(2)
                        /\ \A o \in SeqToSet(st.modes) \ {c.m} :
                              LET rr == Reduced(c.post, <<c.m, o>>) IN rr.V[1][2] = Zero /\ rr.V[1][4] = Zero /\ rr.V[3][2] = Zero /\ rr.V[3][4] = Zero
ConditionalPhysical == \A i \in 1 .. Len(HomCases) : Symmetric(HomCases[i].post) /\ ModeUncertainty(HomCases[i].post)
HetPhysical         == \A i \in 1 .. Len(HetCases) : Symmetric(HetCases[i].post) /\ ModeUncertainty(HetCases[i].post)
BornVarPositive     == \A i \in 1 .. Len(HomCases) : RSign(HomCases[i].bvar) > 0
\* the conditional covariance does not depend on the outcome (Gaussian measurement of a Gaussian state)
CovIndependentOfOutcome == \A i, j \in 1 .. Len(HomCases) :
                              (HomCases[i].m = HomCases[j].m /\ HomCases[i].a = HomCases[j].a) => HomCases[i].post.V = HomCases[j].post.V
=============================================================================
