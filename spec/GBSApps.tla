------------------------------ MODULE GBSApps ------------------------------
(***************************************************************************)
(* C19: the GBS application helpers as state machines.                     *)
(*  - clique machine: grow / swap / shrink with the documented candidate   *)
(*    sets and node-selection rules (uniform, degree, weight); the random  *)
(*    tie-break is nondeterminism, so the candidate set the code hands to  *)
(*    the generator must EQUAL the enabled set of the spec;                *)
(*  - subgraph machine: resize growth / shrinking (degree relative to the  *)
(*    subgraph, then weight, then uniform) and the ranked list update;     *)
(*  - combinatorics: integer partitions (orbits), exact orbit and event    *)
(*    cardinalities (exact rationals over BigInteger), sample conversions. *)
(* Graph: Nodes = 0 .. n-1, Adj(v) given by an edge set.                   *)
(***************************************************************************)
EXTENDS Rat, FiniteSets, Naturals

\* ---- graphs --------------------------------------------------------------------------------------
Adj(E, v)        == {u \in UNION E : {u, v} \in E /\ u # v}
IsClique(E, S)   == \A u, v \in S : u # v => {u, v} \in E
Deg(E, v)        == Cardinality(Adj(E, v))
DegIn(E, v, S)   == Cardinality(Adj(E, v) \cap S)
MaxBy(S, f(_))   == {v \in S : \A u \in S : f(u) <= f(v)}
MinBy(S, f(_))   == {v \in S : \A u \in S : f(v) <= f(u)}
C0(N, E, S)      == {v \in N \ S : S \subseteq Adj(E, v)}
C1(N, E, S)      == {p \in S \X (N \ S) : (S \ {p[1]}) \subseteq Adj(E, p[2]) /\ p[1] \notin Adj(E, p[2])}

\* enabled choices per routine; W is a function node -> weight
GrowChoices(N, E, S, mode, W) ==
   LET c == C0(N, E, S) IN
   IF mode = "uniform" THEN c ELSE IF mode = "degree" THEN MaxBy(c, LAMBDA v : Deg(E, v)) ELSE MaxBy(c, LAMBDA v : W[v])
SwapChoices(N, E, S, mode, W) ==
   LET c == C1(N, E, S) IN
   IF mode = "uniform" THEN c ELSE IF mode = "degree" THEN MaxBy(c, LAMBDA p : Deg(E, p[2])) ELSE MaxBy(c, LAMBDA p : W[p[2]])
ShrinkChoices(N, E, S, mode, W) ==
   IF IsClique(E, S) THEN {}
   ELSE LET low == MinBy(S, LAMBDA v : DegIn(E, v, S)) IN
        IF mode = "uniform" THEN low ELSE MinBy(low, LAMBDA v : W[v])
\* resize: grow by the node of highest degree relative to the subgraph (then highest weight), shrink by the node of
\* lowest degree inside the subgraph (then lowest weight)
RGrowChoices(N, E, S, mode, W) ==
   LET hi == MaxBy(N \ S, LAMBDA v : DegIn(E, v, S)) IN
   IF mode = "uniform" THEN hi ELSE MaxBy(hi, LAMBDA v : W[v])
RShrinkChoices(N, E, S, mode, W) ==
   LET low == MinBy(S, LAMBDA v : DegIn(E, v, S)) IN
   IF mode = "uniform" THEN low ELSE MinBy(low, LAMBDA v : W[v])

Succs(fn, N, E, S, mode, W) ==
   CASE fn = "grow"    -> {S \cup {v} : v \in GrowChoices(N, E, S, mode, W)}
     [] fn = "swap"    -> {(S \ {p[1]}) \cup {p[2]} : p \in SwapChoices(N, E, S, mode, W)}
     [] fn = "shrink"  -> {S \ {v} : v \in ShrinkChoices(N, E, S, mode, W)}
     [] fn = "rgrow"   -> {S \cup {v} : v \in RGrowChoices(N, E, S, mode, W)}
     [] fn = "rshrink" -> {S \ {v} : v \in RShrinkChoices(N, E, S, mode, W)}
NChoices(fn, N, E, S, mode, W) ==
   CASE fn = "grow"    -> Cardinality(GrowChoices(N, E, S, mode, W))
     [] fn = "swap"    -> Cardinality(SwapChoices(N, E, S, mode, W))
     [] fn = "shrink"  -> Cardinality(ShrinkChoices(N, E, S, mode, W))
     [] fn = "rgrow"   -> Cardinality(RGrowChoices(N, E, S, mode, W))
     [] fn = "rshrink" -> Cardinality(RShrinkChoices(N, E, S, mode, W))
Density(E, S) == IF Cardinality(S) < 2 THEN Zero
                 ELSE Q(2 * Cardinality({e \in E : e \subseteq S}), Cardinality(S) * (Cardinality(S) - 1))

\* ---- combinatorics ---------------------------------------------------------------------------------
\* integer partitions of n with parts <= m, as non-increasing sequences
RECURSIVE Parts(_, _)
Parts(n, m) == IF n = 0 THEN {<< >>}
               ELSE UNION {{<<k>> \o p : p \in Parts(n - k, k)} : k \in 1 .. (IF m < n THEN m ELSE n)}
Orbits(n)   == Parts(n, n)
RECURSIVE Fact(_)
Fact(k)     == IF k = 0 THEN One ELSE RMul(Z(k), Fact(k - 1))
Mult(o, v)  == Cardinality({i \in DOMAIN o : o[i] = v})
RECURSIVE ProdFactMult(_, _)
ProdFactMult(o, V) == IF V = {} THEN One ELSE LET v == CHOOSE x \in V : TRUE IN RMul(Fact(Mult(o, v)), ProdFactMult(o, V \ {v}))
\* number of distinct samples of `modes` modes in the orbit o:  modes! / (prod_v mult_v! * (modes - len)!)
OrbitCard(o, modes) == IF Len(o) > modes THEN Zero
                       ELSE RDiv(Fact(modes), RMul(ProdFactMult(o, {o[i] : i \in DOMAIN o}), Fact(modes - Len(o))))
RECURSIVE SumCards(_, _)
SumCards(Os, modes) == IF Os = {} THEN Zero ELSE LET o == CHOOSE x \in Os : TRUE IN RAdd(OrbitCard(o, modes), SumCards(Os \ {o}, modes))
EventCard(n, maxc, modes) == SumCards({o \in Orbits(n) : \A i \in DOMAIN o : o[i] <= maxc}, modes)
=============================================================================
