------------------------------ MODULE MC_TDMDev ------------------------------
(***************************************************************************)
(* C12, single-loop time-domain devices (compilers "TDM" and "TD2"): the   *)
(* device is the template                                                  *)
(*     Sgate({rs}, 0) | 1 ; Rgate({r}) | 0 ; BSgate({bs}, 0) | (0, 1) ;    *)
(*     MeasureHomodyne({m}) | 0                                            *)
(* with one allowed-value domain per parameter (a set of points and        *)
(* intervals), T time bins and a limit on the number of time bins.         *)
(* A source program is the template with at most Defects deviations:       *)
(*   gate deviations  (another gate, another mode, swapped modes, a fixed  *)
(*                     argument changed -- as a number or as a per-bin     *)
(*                     array --, gate dropped, gate added)                 *)
(*   value deviations (one time bin of one array below / above / between   *)
(*                     the allowed values, or exactly on a boundary)       *)
(*   size deviations  (more time bins than the device allows)              *)
(*   order            (the two commuting first gates exchanged: still the  *)
(*                     same circuit)                                       *)
(* TLC enumerates all of them; Inside says whether the program is inside   *)
(* the device's promise.  The harness compiles each with the real code;    *)
(* TraceDevice judges what comes back.                                     *)
(***************************************************************************)
EXTENDS Integers, Sequences, FiniteSets, TLC, Json
CONSTANTS MaxT, Defects, EMIT
VARIABLES T, gate, gpos, val, vpar, vbin, long, swapped

vars == <<T, gate, gpos, val, vpar, vbin, long, swapped>>
GateDefects == {"none", "other_gate", "other_mode", "swapped_modes", "fixed_number", "fixed_array", "dropped", "added"}
ValDefects  == {"none", "below", "above", "gap", "boundary_lo", "boundary_hi", "point"}
NDef == (IF gate # "none" THEN 1 ELSE 0) + (IF val # "none" THEN 1 ELSE 0) + (IF long THEN 1 ELSE 0)
Init == /\ T \in 1 .. MaxT
        /\ gate \in GateDefects /\ gpos \in 1 .. 4
        /\ val \in ValDefects /\ vpar \in 1 .. 4 /\ vbin \in 1 .. T
        /\ long \in BOOLEAN /\ swapped \in BOOLEAN
        /\ (gate = "none" => gpos = 1) /\ (val = "none" => (vpar = 1 /\ vbin = 1))
        /\ (gate \in {"swapped_modes"} => gpos = 3)                      \* only the beamsplitter has two modes
        /\ (gate \in {"fixed_number", "fixed_array"} => gpos \in {1, 3})   \* gates with a fixed second argument
        /\ (gate = "added" => gpos = 1)
        /\ NDef <= Defects
Next == UNCHANGED vars
Spec == Init /\ [][Next]_vars
\* inside the promise: no deviation except an exchange of commuting gates, values on a boundary or on an allowed point
Inside == gate = "none" /\ val \in {"none", "boundary_lo", "boundary_hi", "point"} /\ ~long
EmitInv == EMIT => PrintT(ToJson([T |-> T, gate |-> gate, gpos |-> gpos, val |-> val, vpar |-> vpar, vbin |-> vbin, long |-> long,
                                   swapped |-> swapped, inside |-> Inside]))
=============================================================================
