------------------------------ MODULE TraceOpt ------------------------------
(***************************************************************************)
(* Validation of recorded rewrites (C03 Program.optimize / compile(optimize*)
(* =True); also used for C11 gaussian_merge and C14 save/load round trips): *)
(* each case holds the abstract original circuit and the abstract circuit  *)
(* projected from what the real code returned; TLC decides whether both    *)
(* denote the same map (finite phase-space map on the probes and, for      *)
(* Gaussian circuits, the exact state from the probe state).  The verdict  *)
(* is semantic: any different-but-correct rewrite is accepted.             *)
(***************************************************************************)
EXTENDS Optimizer, TLC, Json, IOUtils
Cases == JsonDeserialize(IOEnv.CASES_FILE)
VARIABLES tid, verdict
Case  == Cases[tid]
\* Merge never succeeds on a measurement (Optimizer.tla): the measurements of the source survive, in order, with their arguments
IsMeasCmd(o) == o.name \in {"MeasureHomodyne", "MeasureHeterodyne", "MeasureFock", "MeasureThreshold"}
MeasSeq(q) == SelectSeq(q, IsMeasCmd)
Verdict(c) == IF MeasSeq(c.orig) # MeasSeq(c.opt) THEN "MeasurementNotPreserved"
              ELSE IF FDen(c.orig, c.n) # FDen(c.opt, c.n) THEN "FiniteMapChanged"
              ELSE IF AllGaussian(c.orig) /\ AllGaussian(c.opt) /\ ExactDen(c.orig, c.n) # ExactDen(c.opt, c.n)
                   THEN "ExactStateChanged"
              ELSE "accepted"
Init == tid \in DOMAIN Cases /\ verdict = Verdict(Cases[tid])
Next == UNCHANGED <<tid, verdict>>
Spec == Init /\ [][Next]_<<tid, verdict>>
Report == PrintT(ToJson([tid |-> tid, verdict |-> verdict]))
=============================================================================
