------------------------------- MODULE MC_Run -------------------------------
(***************************************************************************)
(* The engine's segment loop with the parameter store (C09, C10).          *)
(*                                                                         *)
(* A history is a sequence of items                                        *)
(*    command (from the pool)  |  "Seg" (segment boundary: the current      *)
(*    program is run, a successor program continues)  |  "Reset"           *)
(*    |  "Bind" (the next runs pass args x = value).                       *)
(* State: sim = exact simulator state, rv[m] = latest outcome of mode m    *)
(* (the value a measured parameter q[m].par stands for), bd = binding of   *)
(* the free parameter x, err = error class raised (then nothing further).  *)
(*                                                                         *)
(* Parameter expressions: num(v) | aff(a, m, b, c) = a*q[m].par + b*x + c  *)
(* (m = -1: no measured term; b = 0: no free term) | prod(m) = q[m].par*x. *)
(* A command whose expression needs an absent value is an error step       *)
(* (ParameterError) that leaves sim unchanged.                             *)
(*                                                                         *)
(* C09 (compositional): the state depends only on the commands since the   *)
(* last Reset -- Seg items do not change it -- so the harness executes the *)
(* same history as separate run calls, as one run call with a list, and as *)
(* one concatenated program, and all must reach this state.                *)
(* C10: LatestOutcome (rv is overwritten by every measurement of the mode),*)
(* NoUseBeforeMeasure / NoUnbound (error steps), SubstitutionCommutes (the *)
(* emitted numeric twin `num` reaches the same state by construction).     *)
(***************************************************************************)
EXTENDS Ops, TLC, Json

CONSTANTS N, Depth, PoolId, EMIT
VARIABLES hist, sim, rv, bd, err, num
vars == <<hist, sim, rv, bd, err, num>>
K == One
NoVal      == [has |-> FALSE, v |-> Zero]
Val(x)     == [has |-> TRUE, v |-> x]
ENum(v)    == [k |-> "num", v |-> v, a |-> Zero, m |-> -1, b |-> Zero, c |-> Zero]
EAff(a, m, b, c) == [k |-> "aff", v |-> Zero, a |-> a, m |-> m, b |-> b, c |-> c]
EProd(m)   == [k |-> "prod", v |-> Zero, a |-> One, m |-> m, b |-> One, c |-> Zero]
Cmd(name, e, modes, dag) == [name |-> name, e |-> e, modes |-> modes, dag |-> dag]

a345  == <<Q(3, 5), Q(4, 5)>>
am345 == <<Q(-3, 5), Q(4, 5)>>
Needs(e)   == [meas |-> e.k \in {"aff", "prod"} /\ e.m >= 0, free |-> (e.k = "aff" /\ ~RIsZero(e.b)) \/ e.k = "prod"]
CanEval(e) == /\ (Needs(e).meas => rv[e.m + 1].has) /\ (Needs(e).free => bd.has)
MV(e)      == IF Needs(e).meas THEN rv[e.m + 1].v ELSE Zero
FV(e)      == IF Needs(e).free THEN bd.v ELSE Zero
EvalE(e)   == CASE e.k = "num"  -> e.v
                [] e.k = "aff"  -> RAdd3(RMul(e.a, MV(e)), RMul(e.b, FV(e)), e.c)
                [] e.k = "prod" -> RMul(MV(e), FV(e))
\* homodyne commands carry <<angle, select>> as num expressions; their outcome is the selected value
\* a loss channel is written with its energy transmission T, the kernel takes the amplitude factor sqrt(T): the pool only uses
\* expressions whose values are the squares below
SqrtOf(v) == CASE v = Q(1, 4) -> Q(1, 2) [] v = One -> One [] v = Q(16, 25) -> Q(4, 5) [] OTHER -> v
Concrete(c) == [name |-> c.name, p |-> [i \in DOMAIN c.e |-> IF c.name = "LossChannel" /\ c.e[i].k # "num" THEN SqrtOf(EvalE(c.e[i])) ELSE EvalE(c.e[i])],
                modes |-> c.modes, dag |-> c.dag]

\* ---- command pools ------------------------------------------------------------------------------------------
PoolC10 == << Cmd("MeasureHomodyne", <<ENum(A0), ENum(Q(1, 2))>>, <<0>>, FALSE),
              Cmd("MeasureHomodyne", <<ENum(APi2), ENum(Q(-1, 4))>>, <<0>>, FALSE),
              Cmd("Coherent", <<ENum(Q(1, 2)), ENum(am345)>>, <<0>>, FALSE),
              Cmd("Xgate", <<EAff(One, 0, Zero, Zero)>>, <<1>>, FALSE),
              Cmd("Zgate", <<EAff(Two, 0, Q(-1, 1), Zero)>>, <<1>>, FALSE),
              Cmd("Xgate", <<EProd(0)>>, <<1>>, TRUE),
              Cmd("Dgate", <<EAff(Zero, -1, One, Q(1, 4)), ENum(a345)>>, <<1>>, FALSE),
              \* a numeric partner: together with the gate above it is the identity for the binding x = 1/4 only -- an optimiser
              \* must not cancel the pair because of the value x happens to be bound to
              Cmd("Dgate", <<ENum(Q(-1, 2)), ENum(a345)>>, <<1>>, FALSE),
              Cmd("Sgate", <<ENum(Q(4, 3)), ENum(A0)>>, <<0>>, FALSE),
              \* a channel with a symbolic transmission T = 11/20 - 3 x / 5 (= 1/4 for x = 1/2, = 1 for x = -3/4): two of them in a
              \* row are merged by the optimiser into a symbolic product
              Cmd("LossChannel", <<EAff(Zero, -1, Q(-3, 5), Q(11, 20))>>, <<1>>, FALSE),
              Cmd("BSgate", <<ENum(a345), ENum(APi2)>>, <<0, 1>>, FALSE),
              Cmd("MeasureHomodyne", <<ENum(a345), ENum(Q(-1, 2))>>, <<1>>, FALSE),
              Cmd("Zgate", <<EAff(Q(1, 2), 1, Zero, Q(1, 4))>>, <<0>>, FALSE) >>
PoolC09 == << Cmd("S2gate", <<ENum(Q(4, 3)), ENum(A0)>>, <<0, 1>>, FALSE),
              Cmd("Xgate", <<ENum(Q(1, 2))>>, <<0>>, FALSE),
              Cmd("BSgate", <<ENum(a345), ENum(APi2)>>, <<1, 0>>, TRUE),
              Cmd("Pgate", <<ENum(Q(1, 2))>>, <<1>>, TRUE),
              Cmd("MeasureHomodyne", <<ENum(A0), ENum(Q(1, 2))>>, <<0>>, FALSE),
              Cmd("Zgate", <<EAff(One, 0, Zero, Zero)>>, <<1>>, FALSE),
              Cmd("Rgate", <<ENum(a345)>>, <<0>>, FALSE),
              Cmd("CZgate", <<ENum(Q(1, 2))>>, <<0, 1>>, TRUE),
              Cmd("LossChannel", <<ENum(Q(4, 5))>>, <<1>>, FALSE),
              Cmd("Dgate", <<EAff(Zero, -1, One, Zero), ENum(a345)>>, <<1>>, FALSE),
              Cmd("Fouriergate", << >>, <<0>>, FALSE),
              Cmd("MZgate", <<ENum(a345), ENum(APi2)>>, <<0, 1>>, TRUE) >>
Pool == IF PoolId = "c10" THEN PoolC10 ELSE PoolC09
BindVals == <<Q(1, 2), Q(-3, 4)>>

Item(kind, i) == [kind |-> kind, i |-> i]
Init == /\ hist = << >> /\ sim = VacuumN(N) /\ rv = [m \in 1 .. N |-> NoVal] /\ bd = NoVal /\ err = "none" /\ num = << >>
Active == err = "none" /\ Len(hist) < Depth
DoCmd(i) == /\ Active
            /\ LET c == Pool[i] IN
               IF \A j \in DOMAIN c.e : CanEval(c.e[j])
               THEN LET o == Concrete(c) IN
                    /\ sim' = Apply(sim, o, K)
                    /\ rv' = IF c.name = "MeasureHomodyne" THEN [rv EXCEPT ![c.modes[1] + 1] = Val(EvalE(c.e[2]))] ELSE rv
                    /\ num' = Append(num, o) /\ err' = "none"
               ELSE /\ err' = "ParameterError" /\ UNCHANGED <<sim, rv, num>>
            /\ hist' = Append(hist, Item("cmd", i)) /\ UNCHANGED bd
\* a segment boundary changes nothing the user can observe in the state (compositionality)
LastKind == IF hist = << >> THEN "Seg" ELSE hist[Len(hist)].kind
DoSeg    == /\ Active /\ LastKind = "cmd" /\ hist' = Append(hist, Item("Seg", 0)) /\ UNCHANGED <<sim, rv, bd, err, num>>
DoReset  == /\ Active /\ LastKind = "Seg" /\ hist # << >> /\ hist' = Append(hist, Item("Reset", 0))
            /\ sim' = VacuumN(N) /\ rv' = [m \in 1 .. N |-> NoVal] /\ num' = << >> /\ UNCHANGED <<bd, err>>
DoBind(j) == /\ Active /\ LastKind \in {"Seg", "Reset"} /\ hist' = Append(hist, Item("Bind", j))
             /\ bd' = Val(BindVals[j]) /\ UNCHANGED <<sim, rv, err, num>>
Next == (\E i \in 1 .. Len(Pool) : DoCmd(i)) \/ DoSeg \/ DoReset \/ (\E j \in 1 .. Len(BindVals) : DoBind(j))
Spec == Init /\ [][Next]_vars

\* ---- properties --------------------------------------------------------------------------------------------------
\* the numeric twin (substituted values, no symbols, no segment boundaries) reaches the same state
SubstitutionCommutes == sim = ApplySeq(VacuumN(N), num, K)
SegIsInvisible       == [][(hist' # hist /\ hist'[Len(hist')].kind = "Seg") => sim' = sim /\ rv' = rv]_vars
LatestOutcome        == [][\A m \in 1 .. N : (rv'[m] # rv[m]) =>
                              (hist'[Len(hist')].kind = "Reset" \/
                               (hist'[Len(hist')].kind = "cmd" /\ Pool[hist'[Len(hist')].i].name = "MeasureHomodyne"
                                /\ Pool[hist'[Len(hist')].i].modes[1] + 1 = m))]_vars
ErrorLeavesState     == [][err' # "none" => sim' = sim /\ rv' = rv]_vars
EmitInv == EMIT => PrintT(ToJson([hist |-> hist, st |-> sim, err |-> err, num |-> num, pool |-> Pool,
                                   rv |-> rv, bd |-> bd, binds |-> BindVals]))
=============================================================================
