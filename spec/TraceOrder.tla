----------------------------- MODULE TraceOrder -----------------------------
(***************************************************************************)
(* Trace validation for C04: outputs recorded from the real reordering     *)
(* routines (list->grid->DAG->list, list_to_DAG, group_operations with     *)
(* several predicates, GBS.compile, Program.optimize survivors) are        *)
(* consumed command by command by the scheduler of CircuitOrder.  One      *)
(* behaviour per recorded case; each step consumes one emitted command and *)
(* is enabled iff the scheduler could emit it; a case that cannot be       *)
(* consumed ends in a verdict naming the failing clause.  Verdicts are     *)
(* total: every case prints exactly one line.                              *)
(***************************************************************************)
EXTENDS CircuitOrder, TLC, Json, IOUtils
Cases == JsonDeserialize(IOEnv.CASES_FILE)
VARIABLES tid, i, verdict
vars == <<tid, i, verdict>>

Case      == Cases[tid]
Circ      == [k \in DOMAIN Case.circ |-> [id |-> Case.circ[k].id, wires |-> Range(Case.circ[k].wires),
                                           marked |-> Case.circ[k].marked]]
OutIds    == Case.out
KnownIds  == \A k \in DOMAIN OutIds : OutIds[k] \in Ids(Circ)
SameMulti == /\ Len(OutIds) = Len(Circ) /\ KnownIds
             /\ \A k, l \in DOMAIN OutIds : k # l => OutIds[k] # OutIds[l]
             /\ DistinctIds(Circ)
Cmd(id)   == Circ[PosIn(Circ, id)]
\* option code of command id on wire w (recorded as a sequence of <<wire, code>> per command)
OptOf(id, w) == LET o == Case.circ[PosIn(Circ, id)].opt IN
                IF \E j \in DOMAIN o : o[j][1] = w THEN (CHOOSE j \in DOMAIN o : o[j][1] = w) ELSE 0
OptCode(id, w) == LET o == Case.circ[PosIn(Circ, id)].opt IN IF OptOf(id, w) = 0 THEN 0 ELSE o[OptOf(id, w)][2]
A         == Case.a
B         == Case.b
Grouped   == Case.kind \in {"group", "gbs"}

\* verdict once every command has been consumed
BWires    == UNION {Cmd(OutIds[k]).wires : k \in (A + 1) .. (A + B)}
Final     == IF Case.kind = "group" /\ B = 0 /\ A # Len(OutIds) THEN "TrailingWithoutMarked"
             ELSE IF Case.kind = "gbs" /\
                     ~ (/\ A + B = Len(OutIds) /\ B > 0
                        /\ \A k \in (A + 1) .. (A + B) : Cmd(OutIds[k]).marked
                        /\ \A k, l \in (A + 1) .. (A + B) : k # l => Cmd(OutIds[k]).wires \cap Cmd(OutIds[l]).wires = {}
                        /\ Range(Case.merged) = BWires /\ Len(Case.merged) = Cardinality(BWires)
                        /\ \A k \in 1 .. Len(Case.merged) - 1 : Case.merged[k] < Case.merged[k + 1])
                  THEN "GBSCollect"
             \* the collected measurement carries, mode by mode, the option (post-selection value / dark counts, coded as an integer,
             \* 0 = none) of the command that measured the mode
             ELSE IF Case.kind = "gbs" /\
                     ~ (\A k \in (A + 1) .. (A + B) : \A w \in Cmd(OutIds[k]).wires :
                           \E j \in DOMAIN Case.mergedopt : Case.mergedopt[j][1] = w /\ Case.mergedopt[j][2] = OptCode(OutIds[k], w))
                  THEN "GBSOptions"
             ELSE "accepted"

Init == /\ tid \in DOMAIN Cases /\ i = 0
        /\ verdict = IF ~SameMulti THEN "NotSameCommands"
                     ELSE IF Len(OutIds) = 0 THEN Final ELSE "running"
Consume == /\ verdict = "running" /\ i < Len(OutIds)
           /\ LET c == Cmd(OutIds[i + 1])  done == {OutIds[k] : k \in 1 .. i} IN
              IF ~Ready(Circ, done, c)
              THEN verdict' = "DependencyOrder" /\ UNCHANGED <<tid, i>>
              ELSE IF Grouped /\ c.marked /\ (i + 1 <= A \/ i + 1 > A + B)
              THEN verdict' = "MarkedOutsideB" /\ UNCHANGED <<tid, i>>
              ELSE /\ i' = i + 1 /\ UNCHANGED tid
                   /\ verdict' = IF i + 1 = Len(OutIds) THEN Final ELSE "running"
Next == Consume
Spec == Init /\ [][Next]_vars

Report == verdict # "running" => PrintT(ToJson([tid |-> tid, verdict |-> verdict, at |-> i]))
=============================================================================
