------------------------------ MODULE MC_HbarNG ------------------------------
(***************************************************************************)
(* C15 for non-Gaussian programs, by self-composition on the finite phase  *)
(* space (FinitePS): a program and its unit-rescaled twin (Xgate, Zgate by *)
(* k2/k1; the cubic phase gate Vgate by k1/k2, since                       *)
(* exp(i gamma x^3 / (3 hbar)) acts on hbar-free coordinates as            *)
(* p~ -> p~ + gamma k x~^2; Kgate and the Gaussian gates carry no unit)    *)
(* denote the same map of hbar-free coordinates.  Theorem (TLC):           *)
(* HbarFreeFinite after every operation.  Each behaviour is replayed at    *)
(* both hbar values on the Fock simulators; dimensionless predictions must *)
(* agree.                                                                  *)
(***************************************************************************)
EXTENDS Optimizer, TLC, Json
CONSTANTS N, Depth, KNum, KDen, K2Num, K2Den, EMIT
VARIABLES hist, hist2
vars == <<hist, hist2>>
K1 == Q(KNum, KDen)
K2 == Q(K2Num, K2Den)
Ratio == RDiv(K2, K1)
a345 == <<Q(3, 5), Q(4, 5)>>
Rescale(op) == CASE op.name \in {"Xgate", "Zgate"} -> [op EXCEPT !.p = <<RMul(op.p[1], Ratio)>>]
                 [] op.name = "Vgate" -> [op EXCEPT !.p = <<RDiv(op.p[1], Ratio)>>]
                 [] OTHER -> op
One1(m) == << Op("Vgate", <<Q(1, 4)>>, <<m>>), OpH("Vgate", <<Q(1, 2)>>, <<m>>), Op("Kgate", <<Z(1)>>, <<m>>),
              Op("Xgate", <<Q(1, 2)>>, <<m>>), Op("Zgate", <<Q(-1, 2)>>, <<m>>), Op("Sgate", <<Q(4, 3), a345>>, <<m>>), Op("Rgate", <<a345>>, <<m>>) >>
Two1 == IF N >= 2 THEN << Op("BSgate", <<a345, APi2>>, <<0, 1>>) >> ELSE << >>
RECURSIVE CatM(_, _)
CatM(F(_), n) == IF n = 0 THEN << >> ELSE CatM(F, n - 1) \o F(n - 1)
Alphabet == CatM(One1, N) \o Two1
Prefix == << Op("Sgate", <<Q(5, 4), A0>>, <<0>>), Op("Xgate", <<Q(1, 2)>>, <<0>>) >>
Init == hist = Prefix /\ hist2 = [i \in DOMAIN Prefix |-> Rescale(Prefix[i])]
Step(op) == /\ Len(hist) - Len(Prefix) < Depth
            /\ hist' = Append(hist, op) /\ hist2' = Append(hist2, Rescale(op))
Next == \E i \in 1 .. Len(Alphabet) : Step(Alphabet[i])
Spec == Init /\ [][Next]_vars
HbarFreeFinite == FDenote(hist, Probes(N, NProbes), K1) = FDenote(hist2, Probes(N, NProbes), K2)
\* the rescaling matters: without it the two programs differ (witness, expected to be violated when K1 # K2)
RescalingIrrelevant == FDenote(hist, Probes(N, NProbes), K1) = FDenote(hist, Probes(N, NProbes), K2)
EmitInv == (EMIT /\ Len(hist) > Len(Prefix)) => PrintT(ToJson([hist |-> hist, hist2 |-> hist2]))
=============================================================================
