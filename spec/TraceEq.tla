------------------------------- MODULE TraceEq -------------------------------
(* Judging recorded answers of Program.__eq__ and Program.equivalence (C18).
   kind "pair":    [n, p, q, eqpq, eqqp, evpq, evqp, same]   (same: p and q are the same abstract circuit)
   kind "closure": [n, p, perm, q, e1, e2]  p2 = p permuted by perm (claimed a legal reordering); e1 = equivalence(p, q),
                   e2 = equivalence(p2, q)                                                                          *)
EXTENDS Optimizer, CircuitOrder, TLC, Json, IOUtils
Cases == JsonDeserialize(IOEnv.CASES_FILE)
VARIABLES tid, verdict
AbsC(c) == [k \in DOMAIN c |-> [id |-> k, wires |-> SeqToSet(c[k].modes), marked |-> FALSE]]
PairVerdict(c) ==
   IF c.eqpq # c.eqqp THEN "EqualityNotSymmetric"
   ELSE IF c.evpq # c.evqp THEN "EquivalenceNotSymmetric"
   ELSE IF c.same /\ ~c.eqpq THEN "EqualityNotReflexive"
   ELSE IF c.same /\ ~c.evpq THEN "EquivalenceNotReflexive"
   ELSE IF c.eqpq /\ ~SameDen(c.p, c.q, c.n) THEN "EqualButDifferent"
   ELSE IF c.evpq /\ ~SameDen(c.p, c.q, c.n) THEN "EquivalentButDifferent"
   ELSE "accepted"
ClosureVerdict(c) ==
   LET a == AbsC(c.p)  o == [k \in DOMAIN c.perm |-> a[c.perm[k]]] IN
   IF ~Legal(a, o) THEN "accepted"            \* not a legal reordering: nothing is promised
   ELSE IF c.e1 # c.e2 THEN "NotInvariantUnderReordering"
   ELSE "accepted"
Verdict(c) == IF c.kind = "pair" THEN PairVerdict(c) ELSE ClosureVerdict(c)
Init == tid \in DOMAIN Cases /\ verdict = Verdict(Cases[tid])
Next == UNCHANGED <<tid, verdict>>
Spec == Init /\ [][Next]_<<tid, verdict>>
Report == PrintT(ToJson([tid |-> tid, verdict |-> verdict]))
=============================================================================
