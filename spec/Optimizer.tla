------------------------------ MODULE Optimizer ------------------------------
(***************************************************************************)
(* C03: the algebra of merging neighbouring one-mode operations and the    *)
(* circuit denotation against which any optimiser output is judged.        *)
(* Merge(a, b) (a applied first) returns "fail", "cancel" or the single    *)
(* operation equal to b o a -- the *documented* algebra: gate families add *)
(* their first parameter when the remaining parameters agree (signs by the *)
(* inverse flags), loss-type channels multiply, preparations: last wins;   *)
(* fixed gates (Fourier) only cancel against their exact inverse.          *)
(***************************************************************************)
EXTENDS FinitePS

FirstKind(name) == CASE name = "Rgate" -> "angle" [] name = "Sgate" -> "sq"
                     [] name \in {"Dgate", "Xgate", "Zgate", "Pgate", "Vgate", "Kgate"} -> "real"
                     [] OTHER -> "none"
AddFirst(kind, x, y, neg) == CASE kind = "angle" -> AAdd(x, IF neg THEN ANeg(y) ELSE y)
                               [] kind = "sq"    -> RMul(x, IF neg THEN RInv(y) ELSE y)
                               [] kind = "real"  -> RAdd(x, IF neg THEN RNeg(y) ELSE y)
Neutral(kind)   == CASE kind = "angle" -> A0 [] kind = "sq" -> One [] kind = "real" -> Zero
Rest(op)        == Tail(op.p)
MFail      == [k |-> "fail"]
MCancel    == [k |-> "cancel"]
MOp(o)     == [k |-> "op", op |-> o]
Merge(a, b) ==
  IF a.modes # b.modes \/ Len(a.modes) # 1 THEN MFail
  ELSE IF IsPrep(a) /\ IsPrep(b) THEN MOp(b)
  ELSE IF a.name # b.name THEN MFail
  ELSE IF FirstKind(a.name) # "none" THEN
       IF Rest(a) # Rest(b) THEN MFail
       ELSE LET k == FirstKind(a.name)
                s == AddFirst(k, a.p[1], b.p[1], a.dag # b.dag)
            IN  IF s = Neutral(k) THEN MCancel ELSE MOp([a EXCEPT !.p = <<s>> \o Rest(a)])
  ELSE IF a.name = "Fouriergate" THEN (IF a.dag # b.dag THEN MCancel ELSE MFail)
  ELSE IF a.name \in ChanNames THEN
       IF Rest(a) # Rest(b) THEN MFail
       ELSE LET t == RMul(a.p[1], b.p[1]) IN
            IF t = One THEN MCancel ELSE MOp([a EXCEPT !.p = <<t>> \o Rest(a)])
  ELSE MFail

\* ---- denotation of a circuit on NMod modes --------------------------------------------------
AllGaussian(c)  == \A i \in DOMAIN c : c[i].name \in Symp1Names \cup Symp2Names \cup SympNNames \cup DispNames \cup ChanNames \cup PrepNames \cup MBNames
a345o == <<Q(3, 5), Q(4, 5)>>
ProbeOps(n)     == IF n = 1 THEN << Op("Sgate", <<Q(3, 2), a345o>>, <<0>>), Op("Dgate", <<Q(1, 2), APi2>>, <<0>>) >>
                   ELSE << Op("S2gate", <<Q(3, 2), A0>>, <<0, 1>>), Op("Sgate", <<Q(2, 1), a345o>>, <<n - 1>>),
                           Op("Dgate", <<Q(1, 2), a345o>>, <<0>>), Op("Dgate", <<Q(3, 4), APi2>>, <<n - 1>>),
                           Op("BSgate", <<a345o, APi2>>, <<n - 1, 0>>) >>
ProbeState(n)   == ApplySeq(VacuumN(n), ProbeOps(n), One)
NProbes == 10
FDen(c, n)      == FDenote(c, Probes(n, NProbes), One)
ExactDen(c, n)  == ApplySeq(ProbeState(n), c, One)
\* two circuits denote the same map: equal finite phase-space maps and, when both are Gaussian, equal exact states
SameDen(c1, c2, n) == /\ FDen(c1, n) = FDen(c2, n)
                      /\ (AllGaussian(c1) /\ AllGaussian(c2)) => ExactDen(c1, n) = ExactDen(c2, n)
MergeSound(a, b, n) == LET m == Merge(a, b) IN
                       /\ (m.k = "cancel") => SameDen(<<a, b>>, << >>, n)
                       /\ (m.k = "op") => SameDen(<<m.op>>, <<a, b>>, n)
=============================================================================
