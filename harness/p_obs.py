"""C16: state observables are mutually consistent, across representations, and answer for exactly the requested
modes.  TLC (MC_Obs.tla) supplies, for every reached lattice state and EVERY ordered tuple of modes, the exact reduced
moments and the rational ingredients (determinants, quadratic forms) of the irrational observables; the harness calls
every BaseState method on the Gaussian, bosonic and Fock representation of that state and compares."""
import itertools
import json
import math
import traceback

import numpy as np

from . import common, lattice
from .lattice import short

_CFG = {}
ALLOWED_REFUSALS = ("ValueError", "NotImplementedError")
INTERNAL = ("operand", "einstein", "einsum", "shape", "broadcast", "aligned", "dimension", "subscript", "index", "axis", "size ")


def is_refusal(got):
    """an explicit refusal (NotImplementedError, or a ValueError about the arguments) -- not an array-shape accident inside"""
    if got["raised"] == "NotImplementedError":
        return True
    return got["raised"] == "ValueError" and not any(w in got.get("msg", "").lower() for w in INTERNAL)


def _call(out, key, fn):
    try:
        out[key] = fn()
    except Exception as e:  # noqa
        out[key] = {"raised": type(e).__name__, "msg": str(e)[:160]}


def _tolist(x):
    return np.asarray(x).tolist()


def _run_one(item):
    from . import sfx
    cfg, cutoff, n0 = _CFG["cfg"], _CFG["cutoff"], _CFG["n"]
    try:
        prog = sfx.build_program(n0, item["hist"])
        eng = sfx.engine(cfg, cutoff)
        st = eng.run(prog).state
        n = st.num_modes
        out = {"ok": True, "n": n}
        if cfg.startswith("fock"):
            out["trace"] = float(np.real(st.trace()))
            out["D"] = st.cutoff_dim
        kw = {"cutoff": 7} if cfg == "gaussian" else ({"cutoff": 7} if cfg == "bosonic" else {})
        xs = np.array([-1.0, 0.25, 1.5])
        for m in range(n):
            _call(out, "mean_photon:%d" % m, lambda: [float(np.real(v)) for v in st.mean_photon(m)])
            for j, q in enumerate(item["modes"][m]["quad"]):
                phi = math.atan2(float(sfx.fr(q[0][1])), float(sfx.fr(q[0][0])))
                _call(out, "quad:%d:%d" % (m, j), lambda: [float(np.real(v)) for v in st.quad_expectation(m, phi)])
            _call(out, "wigner:%d" % m, lambda: _tolist(np.real(st.wigner(m, xs, xs))))
            _call(out, "number_expectation:%d" % m, lambda: [float(np.real(v)) for v in st.number_expectation([m])])
        _call(out, "fidelity_vacuum", lambda: float(np.real(st.fidelity_vacuum())))
        if hasattr(st, "purity"):
            _call(out, "purity", lambda: float(np.real(st.purity())))
        labels = item["st"]["modes"]
        for t in item["tuples"]:
            key = ",".join(map(str, t["ms"]))
            ms = [labels.index(x) for x in t["ms"]]      # state methods address modes by position in the state object
            _call(out, "parity:" + key, lambda: float(np.real(st.parity_expectation(ms))))
            if len(ms) == 2:
                _call(out, "number_expectation:" + key, lambda: [float(np.real(v)) for v in st.number_expectation(ms)])
            if cfg in ("gaussian", "bosonic") and len(ms) > 1:
                # displacements "corresponding to the list of specified modes": in the order requested
                _call(out, "displacement_t:" + key, lambda: _tolist(np.real(st.displacement(ms))) + _tolist(np.imag(st.displacement(ms))))
            if cfg == "gaussian":
                _call(out, "reduced:" + key, lambda: [_tolist(np.real(a)) for a in st.reduced_gaussian(ms)])
            elif cfg == "bosonic":
                def red():
                    w, mu, cov = st.reduced_bosonic(ms)
                    k = len(ms)
                    perm = [2 * i for i in range(k)] + [2 * i + 1 for i in range(k)]
                    mus = np.array(mu)[:, perm]
                    covs = np.array(cov)[:, perm][:, :, perm]
                    m1 = np.einsum("w,wi->i", w, mus)
                    sec = np.einsum("w,wij->ij", w, covs) + np.einsum("w,wi,wj->ij", w, mus, mus) - np.outer(m1, m1)
                    return [_tolist(np.real(m1)), _tolist(np.real(sec))]
                _call(out, "reduced:" + key, red)
            else:
                def redf():
                    rho = np.asarray(st.reduced_dm(ms))
                    mu, V, tr, herm = sfx.fock_tensor_moments(rho, False, len(ms), st.cutoff_dim)
                    return [_tolist(mu), _tolist(V), tr]
                _call(out, "reduced:" + key, redf)
            if cfg != "fock" and cfg != "fockmixed" and len(ms) <= 2:
                # phase-space states also offer reduced_dm in the Fock basis (documented layout: two indices per mode)
                def reddm():
                    rho = np.asarray(st.reduced_dm(ms, **kw))
                    if rho.ndim != 2 * len(ms) or len(set(rho.shape)) != 1:
                        raise TypeError("reduced_dm of %d modes has shape %s" % (len(ms), rho.shape))
                    D = rho.shape[0]
                    mu, V, tr, herm = sfx.fock_tensor_moments(rho, False, len(ms), D)
                    diag = np.real(np.einsum("ii->i", rho)) if len(ms) == 1 else np.real(np.einsum("iijj->ij", rho))
                    last = float(diag[-1]) if len(ms) == 1 else float(diag[-1, :].sum() + diag[:, -1].sum() - diag[-1, -1])
                    return [_tolist(mu), _tolist(V), tr, last]
                _call(out, "reduced_dm:" + key, reddm)
        # quadrature distributions (bosonic: marginal, Fock: x_quad_values / p_quad_values) -> mean and variance on a grid
        grid = np.linspace(-14.0, 14.0, 1401)
        cgrid = np.linspace(-10.0, 10.0, 161)
        pgrid = np.linspace(-9.0, 9.0, 121)

        def moments(pdf, grid=grid):
            pdf = np.real(np.asarray(pdf, dtype=complex))
            dx = grid[1] - grid[0]
            z = float(pdf.sum() * dx)
            m1 = float((grid * pdf).sum() * dx / z)
            return [z, m1, float(((grid - m1) ** 2 * pdf).sum() * dx / z)]
        for m in range(n):
            for j, q in enumerate(item["modes"][m]["quad"]):
                phi = math.atan2(float(sfx.fr(q[0][1])), float(sfx.fr(q[0][0])))
                if cfg == "bosonic":
                    _call(out, "marginal:%d:%d" % (m, j), lambda: moments(st.marginal(m, grid, phi)))
                # (the two grids differ: the x-distribution lives on the first, the p-distribution on the second)
                if abs(phi) < 1e-12 and m == 0 and hasattr(st, "x_quad_values"):
                    _call(out, "xquad:%d" % m, lambda: moments(st.x_quad_values(m, cgrid, pgrid), cgrid))
                if abs(phi - math.pi / 2) < 1e-12 and m == n - 1 and hasattr(st, "p_quad_values"):
                    _call(out, "pquad:%d" % m, lambda: moments(st.p_quad_values(m, cgrid, pgrid), pgrid))
            # first and second moments through poly_quad_expectation (vector of all x then all p)
            def pq(which, second):
                A = np.zeros((2 * n, 2 * n))
                d = np.zeros(2 * n)
                i = m + (n if which == "p" else 0)
                if second:
                    A[i, i] = 1.0
                else:
                    d[i] = 1.0
                return float(np.real(st.poly_quad_expectation(A, d, 0.0)[0]))
            for which in ("x", "p"):
                _call(out, "polyquad1:%s:%d" % (which, m), lambda: pq(which, False))
                _call(out, "polyquad2:%s:%d" % (which, m), lambda: pq(which, True))
            if cfg in ("gaussian", "bosonic"):
                _call(out, "displacement:%d" % m, lambda: [float(np.real(st.displacement([m])[0])), float(np.imag(st.displacement([m])[0]))])
            if cfg == "gaussian":
                _call(out, "squeezing:%d" % m, lambda: [float(x) for x in st.squeezing([m])[0]])
        _call(out, "fidelity_coherent0", lambda: float(np.real(st.fidelity_coherent([0.0] * n))))
        # the state object for an explicit ordered mode selection (engine run option `modes` / backend.state(modes=...)):
        # its k-th subsystem must be the k-th requested mode
        if labels == list(range(n)):
            for t in item["tuples"]:
                ms = list(t["ms"])
                if len(ms) < 2 and n > 1:
                    continue
                key = ",".join(map(str, ms))

                def sel():
                    red = eng.backend.state(modes=ms)
                    res = []
                    for k in range(len(ms)):
                        res.append([[float(np.real(v)) for v in red.quad_expectation(k, 0.0)],
                                    [float(np.real(v)) for v in red.quad_expectation(k, math.pi / 2)]])
                    return res
                _call(out, "select:" + key, sel)
        # Fock probabilities: vacuum and a few single excitations, and marginals vs all_fock_probs / reduced_dm
        pats = [[0] * n] + [[1 if i == j else 0 for i in range(n)] for j in range(n)] + [[2 if i == 0 else (1 if i == n - 1 else 0) for i in range(n)]]
        for p in pats:
            _call(out, "fock_prob:" + ",".join(map(str, p)), lambda: float(np.real(st.fock_prob(p, **kw))))
        if cfg.startswith("fock"):
            def afp():
                a = np.real(np.asarray(st.all_fock_probs())).reshape([st.cutoff_dim] * n)
                res = {"sum": float(a.sum())}
                for m in range(n):
                    marg = a.sum(axis=tuple(i for i in range(n) if i != m))
                    res["nbar:%d" % m] = float((np.arange(len(marg)) * marg).sum())
                    res["parity:%d" % m] = float((((-1.0) ** np.arange(len(marg))) * marg).sum())
                    res["diag:%d" % m] = [float(x) for x in marg[:4]]
                for p in pats:
                    res["p:" + ",".join(map(str, p))] = float(a[tuple(p)])
                return res
            _call(out, "all_fock_probs", afp)
        return out
    except Exception as e:  # noqa
        return {"ok": False, "err": type(e).__name__, "msg": str(e)[:300], "tb": traceback.format_exc()[-1000:]}


def F(x):
    return float(lattice_fr(x))


def lattice_fr(x):
    from fractions import Fraction
    return Fraction(int(x[0]), int(x[1]))


def c16(chk):
    tier = chk.tier
    chk.rule = ("TLC (MC_Obs) emits for every reached lattice state and every ordered tuple of <= 2 (quick) / 3 (thorough) distinct modes the "
                "exact reduced moments, det and quadratic forms; every BaseState method (mean_photon, quad_expectation, wigner, "
                "number_expectation, parity_expectation, fidelity_vacuum, fidelity_coherent, purity, reduced_gaussian / reduced_bosonic / "
                "reduced_dm, fock_prob, all_fock_probs, poly_quad_expectation, displacement, marginal, x/p_quad_values, and the state object "
                "returned for an explicit ordered mode selection) of the Gaussian, bosonic and Fock state objects is called and compared with the exact value, "
                "with each other (cross-method identities) and across representations. A refusal by ValueError/NotImplementedError is "
                "accepted, an answer for other modes is not. Non-trivial = (state, method, tuple) with an entangled/displaced state.")
    chk.assumptions = ["formulas applied last in the harness: parity = exp(-qf/2)/sqrt(det), vacuum fidelity = 2^n exp(-qfI/2)/sqrt(detI), "
                       "Wigner = exp(-(r-mu)^T V^-1 (r-mu)/2)/(2 pi sqrt(det V)) (hbar = 2)", "Fock comparisons within the truncation slack"]
    plans = [(1, 2, "q", "vac", 1, [("gaussian", None)]), (3, 1, "q", "e3", 2, [("gaussian", None), ("bosonic", None)]), (2, 1, "q", "e2", 2, [("fock", 12), ("fockmixed", 10)]),
             (3, 0, "q", "p3", 2, [("fock", 10), ("gaussian", None), ("bosonic", None)]), (3, 0, "q", "x3", 2, [("gaussian", None), ("bosonic", None), ("fock", 10)]),
             (3, 0, "q", "p2", 2, [("gaussian", None), ("bosonic", None), ("fock", 10)]),
             (3, 0, "q", "e3", 3, [("gaussian", None), ("bosonic", None), ("fock", 10), ("fockmixed", 8)])]
    if tier != "quick":
        plans = [(3, 2, "d", "e3", 3, [("gaussian", None), ("bosonic", None)]), (3, 1, "q", "e3", 3, [("gaussian", None), ("bosonic", None), ("fock", 9)]),
                 (2, 2, "q", "e2", 2, [("gaussian", None), ("bosonic", None), ("fock", 12), ("fockmixed", 10)]),
                 (3, 1, "q", "p3", 2, [("fock", 10), ("fockmixed", 7)]), (3, 1, "q", "p2", 2, [("gaussian", None), ("bosonic", None), ("fock", 10)]), (3, 1, "q", "x3", 2, [("gaussian", None), ("bosonic", None), ("fock", 10)])]
    per_hist = {}
    for (n, depth, alpha, prefix, maxt, cfgs) in plans:
        r = chk.tlc("MC_Obs", constants={"N": n, "Depth": depth, "AlphaId": alpha, "PrefixId": prefix, "KNum": 1, "KDen": 1, "EMIT": True,
                                         "MaxTuple": maxt}, invariants=["Physical", "NbarFromMoments", "ReducedOfReduced", "PurityBound", "EmitObs"])
        items = r.json
        for cfg, cutoff in cfgs:
            sel = [it for it in items if lattice.supported(it["hist"], cfg)]
            _CFG.update(cfg=cfg, cutoff=cutoff, n=n)
            common.warm(fock=cfg.startswith("fock"))
            res = common.pmap(_run_one, sel)
            for it, o in zip(sel, res):
                chk.traces += 1
                judge(chk, cfg, cutoff, it, o)
                per_hist.setdefault(lattice.hist_key(it["hist"]), {})[cfg] = o
            mid = sel[len(sel) // 2]
            chk.sample({"config": cfg, "program": short(mid["hist"]), "tuples": [t["ms"] for t in mid["tuples"]][:8]})
    # cross-representation agreement of Fock probabilities and pair number expectations
    for hk, by in per_hist.items():
        ref = by.get("gaussian")
        if not ref or not ref.get("ok"):
            continue
        for cfg, o in by.items():
            if cfg == "gaussian" or not o.get("ok"):
                continue
            slack = 1e-8
            if cfg.startswith("fock"):
                delta = max(0.0, 1 - o["trace"])
                if delta > 1e-3:
                    continue
                slack = 2 * o["D"] * math.sqrt(delta) + 1e-6
            for k, v in ref.items():
                if (k.startswith("fock_prob:") or (k.startswith("number_expectation:") and "," in k)) and k in o:
                    a, b = v, o[k]
                    if isinstance(a, dict) or isinstance(b, dict):
                        continue
                    d = float(np.max(np.abs(np.atleast_1d(a)[:1] - np.atleast_1d(b)[:1])))
                    chk.count(key=(hk, cfg, k, "x"), nontrivial=True)
                    if d > slack * (1 + abs(float(np.atleast_1d(a)[0]))):
                        chk.violation("RepresentationsDisagree", {"backend": cfg, "method": k.split(":")[0]},
                                      {"history": json.loads(hk), "query": k, "gaussian": a, cfg: b, "slack": slack})
    post_processing(chk)
    cat_observables(chk)
    chk.exhaustive = True


def _cat_obs(arg):
    """worker: observables of a cat-state program on the bosonic and Fock representation"""
    import strawberryfields as sf
    from strawberryfields import ops
    from . import sfx
    item, par, cfg, cutoff = arg
    try:
        prog = sf.Program(2)
        cat = item["hist"][0]
        with prog.context as q:
            ops.Catstate(float(sfx.fr(cat["p"][0])), sfx.to_float("angle", cat["p"][1]), par) | q[0]
            for o in item["hist"][1:]:
                sfx.mk_op(o) | tuple(q[m] for m in o["modes"])
        st = sfx.engine(cfg, cutoff).run(prog).state
        out = {"ok": True}
        grid = np.linspace(-14.0, 14.0, 1401)
        for m in (0, 1):
            for j, phi in enumerate((0.0, math.atan2(4, 3), math.pi / 2)):
                _call(out, "quad:%d:%d" % (m, j), lambda: [float(np.real(v)) for v in st.quad_expectation(m, phi)])
                if cfg == "bosonic":
                    def marg():
                        pdf = np.real(np.asarray(st.marginal(m, grid, phi), dtype=complex))
                        dx = grid[1] - grid[0]
                        z = pdf.sum() * dx
                        m1 = (grid * pdf).sum() * dx / z
                        return [float(m1), float(((grid - m1) ** 2 * pdf).sum() * dx / z)]
                    _call(out, "marginal:%d:%d" % (m, j), marg)
            _call(out, "mean_photon:%d" % m, lambda: [float(np.real(v)) for v in st.mean_photon(m)][:1])
        if cfg.startswith("fock"):
            out["trace"] = float(np.real(st.trace()))
        return out
    except Exception as e:  # noqa
        return {"ok": False, "err": type(e).__name__, "msg": str(e)[:300], "tb": traceback.format_exc()[-800:]}


def cat_observables(chk):
    """non-Gaussian states: cat states of several parities after one lattice operation (MC_Cat.tla: exact component means and
    covariance, symbolic weights): quadrature moments at three angles, marginal distributions and mean photon number of the
    bosonic (and, sampled, the Fock) state object against the moments of the combination"""
    from . import p_gauss
    r = chk.tlc("MC_Cat", constants={"Depth": 1, "ANum": 1, "ADen": 2 if chk.tier == "quick" else 1, "MeasMode": "none", "EMIT": True},
                invariants=["CovPhysical", "Paired", "EmitInv"])
    items = r.json
    jobs = [(it, p, "bosonic", None) for it in items for p in p_gauss.CAT_PARITIES]
    jobs += [(it, p, "fock", 16) for k, it in enumerate(items) for p in (0, 1) if k % 4 == chk.seed % 4 and
             not any(o["name"] in ("S2gate", "Sgate") for o in it["hist"][1:])]
    res = common.pmap(_cat_obs, jobs, chunksize=4)
    angles = [(1.0, 0.0), (0.6, 0.8), (0.0, 1.0)]
    for (it, par, cfg, cutoff), o in zip(jobs, res):
        chk.traces += 1
        hk = lattice.hist_key(it["hist"])
        f0 = {"backend": cfg, "state": "cat"}
        det = {"config": cfg, "program": "Catstate(%s, parity %s) ; %s" % (lattice.fmt_p(it["hist"][0]["p"]), par, short(it["hist"][1:]))}
        if not o["ok"]:
            chk.violation("UnexpectedError", dict(f0, error=o["err"]), dict(det, msg=o["msg"], tb=o.get("tb")))
            continue
        mean, cov, _ = p_gauss.cat_oracle(it, par)
        slack = 1e-7 if cfg == "bosonic" else 6e-3
        if cfg == "fock" and o.get("trace", 1) < 1 - 1e-4:
            chk.inconclusive += 1
            continue
        for m in (0, 1):
            for j, (c, s_) in enumerate(angles):
                wm = c * mean[m] + s_ * mean[m + 2]
                wv = c * c * cov[m, m] + s_ * s_ * cov[m + 2, m + 2] + 2 * c * s_ * cov[m, m + 2]
                for meth, key, sl in (("quad_expectation", "quad:%d:%d" % (m, j), slack), ("marginal", "marginal:%d:%d" % (m, j), 1e-5)):
                    g = o.get(key)
                    if g is None:
                        continue
                    chk.count(key=(hk, cfg, par, key), nontrivial=True)
                    if isinstance(g, dict):
                        if not is_refusal(g):
                            chk.violation("UnexpectedError", dict(f0, method=meth, error=g["raised"]), dict(det, query=key, msg=g["msg"]))
                    elif abs(g[0] - wm) > sl * (1 + abs(wm)) or abs(g[1] - wv) > sl * (1 + abs(wv)):
                        chk.violation("ObservableWrong", dict(f0, method=meth, tuple_len=1, sorted=True), dict(det, query=key, got=g, want=[wm, wv]))
            g = o.get("mean_photon:%d" % m)
            wn = (cov[m, m] + cov[m + 2, m + 2] + mean[m] ** 2 + mean[m + 2] ** 2) / 4 - 0.5
            if g is not None and not isinstance(g, dict) and abs(g[0] - wn) > slack * (1 + abs(wn)):
                chk.violation("ObservableWrong", dict(f0, method="mean_photon", tuple_len=1, sorted=True), dict(det, got=g, want=wn))
    chk.notes["cat_observable_cases"] = len(jobs)


def _post_one(it):
    """worker: strawberryfields.utils.post_processing on one sample matrix / selection from MC_Post"""
    try:
        from strawberryfields.utils import post_processing as pp
        smp = np.array(it["samples"])
        sel = [m - 1 for m in it["sel"]]
        out = {"ok": True}
        _call(out, "expectation", lambda: float(pp.samples_expectation(smp, sel)))
        _call(out, "variance", lambda: float(pp.samples_variance(smp, sel)))
        if len(sel) == smp.shape[1] and sel == sorted(sel):
            _call(out, "expectation_default", lambda: float(pp.samples_expectation(smp)))
            _call(out, "probs", lambda: np.asarray(pp.all_fock_probs_pnr(smp)).tolist())
        # invalid selections must be refused
        for name, bad in (("out_of_range", [smp.shape[1]]), ("negative", [-1]), ("empty", []), ("nested", [[0]]), ("fractional", [0.5])):
            _call(out, "bad:" + name, lambda: float(pp.samples_expectation(smp, bad)))
        return out
    except Exception as e:  # noqa
        return {"ok": False, "err": type(e).__name__, "msg": str(e)[:300], "tb": traceback.format_exc()[-800:]}


def post_processing(chk):
    tier = chk.tier
    r = chk.tlc("MC_Post", constants={"MaxShots": 2 if tier == "quick" else 3, "NModes": 2 if tier == "quick" else 3, "MaxN": 2, "EMIT": True},
                invariants=["ProbsSumToOne", "ExpectationFromProbs", "VarianceNonNegative", "OrderIrrelevant", "EmitInv"])
    items = r.json
    if len(items) > 20000:
        items = items[chk.seed % 7::7]
    res = common.pmap(_post_one, items, chunksize=64)
    for it, o in zip(items, res):
        chk.traces += 1
        key = json.dumps([it["samples"], it["sel"]])
        chk.count(key=("post", key), nontrivial=any(any(r_) for r_ in it["samples"]))
        f0 = {"backend": "post_processing"}
        det = {"samples": it["samples"], "modes": [m - 1 for m in it["sel"]]}
        if not o["ok"]:
            chk.violation("UnexpectedError", dict(f0, error=o["err"]), dict(det, msg=o["msg"], tb=o.get("tb")))
            continue
        for q, want in (("expectation", F(it["expectation"])), ("variance", F(it["variance"])), ("expectation_default", F(it["expectation"]))):
            g = o.get(q)
            if g is None:
                continue
            if isinstance(g, dict) or abs(g - want) > 1e-12 * (1 + abs(want)):
                chk.violation("ObservableWrong", dict(f0, method="samples_" + q.split("_")[0], tuple_len=len(it["sel"]), sorted=it["sel"] == sorted(it["sel"])),
                              dict(det, query=q, got=g, want=want))
        if "probs" in o:
            g = o["probs"]
            D = it["maxentry"] + 1
            want = np.zeros([D] * len(it["samples"][0]))
            shots = len(it["samples"])
            for pat, cnt in it["probs"]:
                want[tuple(pat)] = cnt / shots
            if isinstance(g, dict) or np.asarray(g).shape != want.shape or float(np.max(np.abs(np.asarray(g) - want))) > 1e-12:
                chk.violation("ObservableWrong", dict(f0, method="all_fock_probs_pnr", tuple_len=len(it["sel"]), sorted=True), dict(det, got=g, want=want.tolist()))
        for k, v in o.items():
            if k.startswith("bad:") and not (isinstance(v, dict) and v["raised"] in ("ValueError", "TypeError")):
                chk.violation("InvalidSelectionAccepted", dict(f0, selection=k[4:]), dict(det, got=v))
    chk.notes["post_processing_cases"] = len(items)


def judge(chk, cfg, cutoff, it, o):
    f0 = {"backend": cfg}
    det0 = {"config": cfg, "cutoff": cutoff, "program": short(it["hist"])}
    if not o["ok"]:
        chk.violation("UnexpectedError", dict(f0, error=o["err"]), dict(det0, msg=o["msg"], tb=o.get("tb")))
        return
    fock = cfg.startswith("fock")
    if fock:
        delta = max(0.0, 1 - o["trace"])
        if delta > 1e-3:
            chk.inconclusive += 1
            return
        s1, s2 = 5 * math.sqrt(delta) + 1e-6, 2 * o["D"] * math.sqrt(delta) + 1e-6
    else:
        s1 = s2 = 1e-8
    hk = lattice.hist_key(it["hist"])

    def check(method, key, got, want, slack, ms):
        chk.count(key=(hk, cfg, key), nontrivial=True)
        if isinstance(got, dict):
            if not is_refusal(got):
                chk.violation("UnexpectedError", dict(f0, method=method, error=got["raised"]), dict(det0, query=key, msg=got["msg"]))
            return
        g, w = np.asarray(got, dtype=float), np.asarray(want, dtype=float)
        if g.shape != w.shape:
            chk.violation("WrongShape", dict(f0, method=method), dict(det0, query=key, got=got, want=want))
            return
        d = float(np.max(np.abs(g - w))) if g.size else 0.0
        if d > slack * (1 + float(np.max(np.abs(w))) if w.size else slack):
            srt = list(ms) == sorted(ms) if ms is not None else None
            chk.violation("ObservableWrong", dict(f0, method=method, tuple_len=len(ms) if ms is not None else 0, sorted=srt),
                          dict(det0, query=key, got=got, want=want, diff=d, slack=slack))
    n = o["n"]
    for m, mo in enumerate(it["modes"]):
        check("mean_photon", "mean_photon:%d" % m, o.get("mean_photon:%d" % m), [F(mo["nbar"]), F(mo["nvar"])], s2 * (3 if fock else 1), [m])
        ne = o.get("number_expectation:%d" % m)
        if ne is not None and not isinstance(ne, dict):
            ne = ne[:1]
        check("number_expectation", "number_expectation:%d" % m, ne, [F(mo["nbar"])], s2, [m])
        for j, q in enumerate(mo["quad"]):
            check("quad_expectation", "quad:%d:%d" % (m, j), o.get("quad:%d:%d" % (m, j)), [F(q[1]), F(q[2])], s2, [m])
    ts = {",".join(map(str, t["ms"])): t for t in it["tuples"]}
    for key, t in ts.items():
        ms = t["ms"]
        k = len(ms)
        mu = [F(x) for x in t["mu"]]
        V = [[F(x) for x in r] for r in t["V"]]
        det, qf = F(t["det"]), F(t["qf"])
        check("parity_expectation", "parity:" + key, o.get("parity:" + key), math.exp(-qf / 2) / math.sqrt(det), s2 * (4 if fock else 1), ms)
        red = o.get("reduced:" + key)
        if isinstance(red, dict):
            check("reduced", "reduced:" + key, red, None, s2, ms)
        elif red is not None:
            check("reduced", "reduced_mu:" + key, red[0], mu, s1, ms)
            check("reduced", "reduced_cov:" + key, red[1], V, s2, ms)
        if "displacement_t:" + key in o:
            check("displacement", "displacement_t:" + key, o["displacement_t:" + key], [x / 2 for x in mu], s1, ms)
        rdm = o.get("reduced_dm:" + key)
        if rdm is not None:
            if isinstance(rdm, dict):
                check("reduced_dm", "reduced_dm:" + key, rdm, None, s2, ms)
            else:
                # truncation estimate: missing trace, or (the Gaussian state object renormalises the truncated matrix) the
                # weight of the last retained Fock level
                dl = max(0.0, 1 - rdm[2]) + (rdm[3] if len(rdm) > 3 else 0.0)
                if dl < 1e-3:
                    check("reduced_dm", "reduced_dm_mu:" + key, rdm[0], mu, 5 * math.sqrt(dl) + 1e-6, ms)
                    check("reduced_dm", "reduced_dm_cov:" + key, rdm[1], V, 14 * math.sqrt(dl) + 1e-6, ms)
        if k == 1:
            W = o.get("wigner:%d" % it["st"]["modes"].index(ms[0]))
            Vm = np.array(V)
            Vi = np.linalg.inv(Vm)
            xs = np.array([-1.0, 0.25, 1.5])
            want = [[math.exp(-0.5 * np.array([x - mu[0], p - mu[1]]) @ Vi @ np.array([x - mu[0], p - mu[1]])) / (2 * math.pi * math.sqrt(det))
                     for x in xs] for p in xs]
            check("wigner", "wigner:" + key, W, want, s2, ms)
    full = ts.get(",".join(map(str, it["st"]["modes"])))
    if full is not None:
        detI, qfI = F(full["detI"]), F(full["qfI"])
        fv = 2 ** n * math.exp(-qfI / 2) / math.sqrt(detI)
        check("fidelity_vacuum", "fidelity_vacuum", o.get("fidelity_vacuum"), fv, s2, None)
        check("fock_prob", "fock_prob:vac", o.get("fock_prob:" + ",".join(["0"] * n)), fv, s2, None)
        pass
    if "purity" in o:
        from . import sfx_cmp as _sc
        _, Vex = _sc.exact_arrays(it["st"])
        check("purity", "purity", o["purity"], 1 / math.sqrt(max(float(np.linalg.det(Vex)), 1e-300)), 10 * s2, None)
    if False:
        pass
    for m, mo in enumerate(it["modes"]):
        one = ts.get(str(it["st"]["modes"][m]))
        for j, q in enumerate(mo["quad"]):
            g = o.get("marginal:%d:%d" % (m, j))
            if g is not None:
                check("marginal", "marginal:%d:%d" % (m, j), g if isinstance(g, dict) else g[1:], [F(q[1]), F(q[2])], 1e-5, [m])
        if one is not None:
            mu1 = [F(x) for x in one["mu"]]
            V1 = [[F(x) for x in r] for r in one["V"]]
            for w, idx in (("x", 0), ("p", 1)):
                g = o.get("%squad:%d" % (w, m))
                if g is not None:
                    check("%s_quad_values" % w, "%squad:%d" % (w, m), g if isinstance(g, dict) else g[1:], [mu1[idx], V1[idx][idx]], 40 * s2 + 1e-4, [m])
                check("poly_quad_expectation", "polyquad1:%s:%d" % (w, m), o.get("polyquad1:%s:%d" % (w, m)), mu1[idx], s2, [m])
                check("poly_quad_expectation", "polyquad2:%s:%d" % (w, m), o.get("polyquad2:%s:%d" % (w, m)), V1[idx][idx] + mu1[idx] ** 2, 3 * s2, [m])
            if "displacement:%d" % m in o:
                check("displacement", "displacement:%d" % m, o["displacement:%d" % m], [mu1[0] / 2, mu1[1] / 2], s2, [m])
            sq = o.get("squeezing:%d" % m)
            if sq is not None and abs(V1[0][0] * V1[1][1] - V1[0][1] * V1[1][0] - 1) < 1e-12:
                # a pure one-mode state is the displaced squeezed vacuum S(r, phi): the reported (r, phi) must reproduce its covariance
                if isinstance(sq, dict):
                    check("squeezing", "squeezing:%d" % m, sq, None, s2, [m])
                else:
                    c, sh = math.cosh(2 * sq[0]), math.sinh(2 * sq[0])
                    check("squeezing", "squeezing:%d" % m, [c - math.cos(sq[1]) * sh, -math.sin(sq[1]) * sh, c + math.cos(sq[1]) * sh],
                          [V1[0][0], V1[0][1], V1[1][1]], 10 * s2, [m])
    fc0, fvv = o.get("fidelity_coherent0"), o.get("fidelity_vacuum")
    if fc0 is not None and fvv is not None and not isinstance(fvv, dict):
        check("fidelity_coherent", "fidelity_coherent0", fc0, fvv, 1e-9, None)
    for key, t in ts.items():
        g = o.get("select:" + key)
        if g is None:
            continue
        ms = t["ms"]
        K = len(ms)
        mu = [F(x) for x in t["mu"]]
        V = [[F(x) for x in r] for r in t["V"]]
        want = [[[mu[k], V[k][k]], [mu[K + k], V[K + k][K + k]]] for k in range(K)]
        check("state_for_modes", "select:" + key, g, want, s2, ms)
    afp = o.get("all_fock_probs")
    if isinstance(afp, dict) and "raised" not in afp:
        for m, mo in enumerate(it["modes"]):
            check("all_fock_probs", "afp_nbar:%d" % m, afp["nbar:%d" % m], F(mo["nbar"]), s2, [m])
            key = str(it["st"]["modes"][m])
            par = o.get("parity:" + key)
            if par is not None and not isinstance(par, dict):
                check("parity_vs_all_fock_probs", "afp_parity:%d" % m, afp["parity:%d" % m], par, 1e-9, [m])
        for kk, v in afp.items():
            if kk.startswith("p:"):
                fp = o.get("fock_prob:" + kk[2:])
                if fp is not None and not isinstance(fp, dict):
                    check("fock_prob_vs_all_fock_probs", kk, v, fp, 1e-10, None)
