"""C02 and C17.  TLC (MC_Decomp.tla) generates matrices with known exact meaning (unitaries, symplectic matrices,
covariance matrices as exact products of lattice gates: identity, permutation-like, exact zeros, block-diagonal, degenerate
squeezing) and the exact state the documented operation must produce from the probe state.
C02: Interferometer (every mesh), GaussianTransform, Gaussian(V, r) and the scalar composites (via MC_Gauss behaviours,
every compile target) are compiled and executed; compared with the exact state; compiled circuits must use only the target's
primitives on the operation's modes.
C17: the routines of strawberryfields.decompositions are called directly on the same inputs (and on invalid variants); factors
are multiplied back by the harness, structure predicates checked; meshes are multiplied back through the harness' own
beamsplitter / phase constructors by executing the emitted gate sequences."""
import json
import traceback

import numpy as np

from . import common, lattice
from .lattice import short

_CFG = {}
MESHES = ["rectangular", "rectangular_phase_end", "rectangular_symmetric", "triangular", "rectangular_compact", "triangular_compact", "sun_compact"]


def _mats(item):
    from . import sfx
    fr = sfx.fr
    n = item["n"]
    S = np.array([[float(fr(x)) for x in r] for r in item["S"]])
    U = np.array([[complex(float(fr(x[0])), float(fr(x[1]))) for x in r] for r in item["U"]])
    V = np.array([[float(fr(x)) for x in r] for r in item["V"]])
    rr = np.array([float(fr(x)) for x in item["r"]])
    return n, S, U, V, rr


def _state(prog, backend="gaussian"):
    import strawberryfields as sf
    from . import sfx
    st = sf.Engine(backend).run(prog).state
    p = sfx.project_state(st, backend)
    return [np.real(p["mu"]).tolist(), np.real(p["V"]).tolist()]


def _ops_case(item):
    """C02: operations with matrix arguments"""
    import strawberryfields as sf
    from strawberryfields import ops
    from . import sfx
    n, S, U, V, rr = _mats(item)
    out = {"ok": True, "runs": {}}
    gprims = None
    try:
        from strawberryfields.compilers import Compiler  # noqa
        import strawberryfields.compilers as comps
        gprims = comps.compiler_db["gaussian"].primitives if hasattr(comps, "compiler_db") else None
    except Exception:  # noqa
        pass

    def run(label, mk, backend="gaussian"):
        try:
            prog = sf.Program(n)
            with prog.context as q:
                sfx.apply_hist(q, item["prefix"])
                mk(q)
            rec = {"state": _state(prog, backend)}
            try:
                comp = prog.compile(compiler="gaussian")
                names = sorted({type(c.op).__name__ for c in comp.circuit})
                rec["compiled_ops"] = names
                if gprims is not None:
                    rec["non_primitive"] = [x for x in names if x not in gprims]
            except Exception as e:  # noqa
                rec["compile_error"] = "%s: %s" % (type(e).__name__, str(e)[:120])
            out["runs"][label] = rec
        except Exception as e:  # noqa
            out["runs"][label] = {"error": "%s: %s" % (type(e).__name__, str(e)[:160]), "tb": traceback.format_exc()[-500:]}
    if item["kind"] == "unitary":
        for mesh in MESHES:
            run("Interferometer:" + mesh, lambda q, mesh=mesh: ops.Interferometer(U, mesh=mesh) | tuple(q[i] for i in range(n)))
        run("Interferometer:rectangular:nodrop", lambda q: ops.Interferometer(U, mesh="rectangular", drop_identity=False) | tuple(q[i] for i in range(n)))
    elif item["kind"] == "symplectic":
        run("GaussianTransform", lambda q: ops.GaussianTransform(S) | tuple(q[i] for i in range(n)))
        if n >= 2:
            perm = list(range(1, n)) + [0]
            idx = perm + [p + n for p in perm]
            # the same transformation with the targets listed in another order: matrix re-indexed accordingly
            Sp = S[np.ix_(idx, idx)]
            run("GaussianTransform:permuted", lambda q: ops.GaussianTransform(Sp) | tuple(q[i] for i in perm))
    else:
        run("Gaussian", lambda q: ops.Gaussian(V, rr) | tuple(q[i] for i in range(n)))
        run("Gaussian:nodecomp", lambda q: ops.Gaussian(V, rr, decomp=False) | tuple(q[i] for i in range(n)))
        run("Gaussian:bosonic", lambda q: ops.Gaussian(V, rr) | tuple(q[i] for i in range(n)), backend="bosonic")
        # the same preparation with the targets listed in other orders (matrix and means re-indexed accordingly): a cyclic shift
        # (a 3-cycle from 3 modes on) and the reversal, on the simulators that prepare it natively and by decomposition
        for plabel, perm in (("cyclic", list(range(1, n)) + [0]), ("reversed", list(range(n))[::-1])):
            if n < 2 or (plabel == "reversed" and n < 3):
                continue
            idx = perm + [p + n for p in perm]
            Vp, rp = V[np.ix_(idx, idx)], rr[idx]
            for backend in ("gaussian", "bosonic"):
                run("Gaussian:%s:%s" % (plabel, backend), lambda q, Vp=Vp, rp=rp, perm=perm: ops.Gaussian(Vp, rp) | tuple(q[i] for i in perm), backend=backend)
            run("Gaussian:%s:nodecomp" % plabel, lambda q, Vp=Vp, rp=rp, perm=perm: ops.Gaussian(Vp, rp, decomp=False) | tuple(q[i] for i in perm))
    return out


def _own_bs(theta, phi):
    return np.array([[np.cos(theta), -np.exp(-1j * phi) * np.sin(theta)], [np.exp(1j * phi) * np.sin(theta), np.cos(theta)]])


def _routine_case(item):
    """C17: decomposition routines called directly"""
    from strawberryfields import decompositions as dec
    n, S, U, V, rr = _mats(item)
    out = {"ok": True, "checks": []}

    def add(routine, clause, ok, info=""):
        out["checks"].append({"routine": routine, "clause": clause, "ok": bool(ok), "info": info})
    Om = np.block([[np.zeros((n, n)), np.eye(n)], [-np.eye(n), np.zeros((n, n))]])
    try:
        if item["kind"] == "unitary":
            # Autonne-Takagi on A = U diag(l) U^T with repeated / zero singular values
            for lam in ([1.0] * n, list(range(n, 0, -1)), [2.0, 2.0] + [0.5] * (n - 2), [1.5] + [0.0] * (n - 1), [0.0] * n):
                lam = np.array(lam[:n], dtype=float)
                A = U @ np.diag(lam) @ U.T
                try:
                    rl, W = dec.takagi(A)
                    add("takagi", "Reconstructs", np.allclose(W @ np.diag(rl) @ W.T, A, atol=1e-9), "lambda=%s" % lam.tolist())
                    add("takagi", "Unitary", np.allclose(W @ W.conj().T, np.eye(n), atol=1e-9), "lambda=%s" % lam.tolist())
                    add("takagi", "NonNegativeOrdered", np.all(rl >= -1e-12) and np.all(np.diff(rl) <= 1e-9), "rl=%s" % np.round(rl, 6).tolist())
                    add("takagi", "SingularValues", np.allclose(np.sort(rl), np.sort(lam), atol=1e-8), "rl=%s lambda=%s" % (np.round(rl, 6).tolist(), lam.tolist()))
                except Exception as e:  # noqa
                    add("takagi", "Raises", False, "%s: %s (lambda=%s)" % (type(e).__name__, str(e)[:100], lam.tolist()))
            # boundary of tolerance: slightly non-symmetric -> rejected or decomposed correctly
            if n > 1:
                for eps in (1e-6, 3e-5):
                    bad = (U @ np.diag(np.arange(1, n + 1)) @ U.T).astype(complex)
                    bad[0, -1] += eps
                    try:
                        rl, Ut = dec.takagi(bad)
                        err = np.max(np.abs(Ut @ np.diag(rl) @ Ut.T - bad))
                        add("takagi", "InvalidRejected", err < 1e-8, "input asymmetric by %g was decomposed with error %.3g" % (eps, err))
                    except ValueError:
                        add("takagi", "InvalidRejected", True)
                    except Exception as e:  # noqa
                        add("takagi", "InvalidRejected", False, "slightly asymmetric: wrong error %s" % type(e).__name__)
            # invalid: not symmetric
            bad = U @ np.diag(np.arange(1, n + 1)) @ U.T
            bad = bad + np.triu(np.ones((n, n)), 1) * 1e-3
            try:
                dec.takagi(bad)
                add("takagi", "InvalidRejected", n == 1, "non-symmetric input was decomposed")
            except ValueError:
                add("takagi", "InvalidRejected", True)
            except Exception as e:  # noqa
                add("takagi", "InvalidRejected", False, "wrong error %s" % type(e).__name__)
            # graph embedding: A real symmetric built from the real part
            Ar = np.real(U @ np.diag(np.arange(1, n + 1) / n) @ U.T)
            Ar = (Ar + Ar.T) / 2
            if np.linalg.norm(Ar) > 1e-6:
                for nbar in (0.3, 1.0):
                    try:
                        sq, W = dec.graph_embed(Ar, mean_photon_per_mode=nbar)
                        add("graph_embed", "Unitary", np.allclose(W @ W.conj().T, np.eye(n), atol=1e-9))
                        add("graph_embed", "MeanPhoton", abs(np.mean(np.sinh(sq) ** 2) - nbar) < 1e-6, "mean sinh^2 = %.6g" % np.mean(np.sinh(sq) ** 2))
                        B = W @ np.diag(np.tanh(sq)) @ W.T
                        c = np.vdot(Ar, B) / np.vdot(Ar, Ar)
                        add("graph_embed", "ProportionalAdjacency", np.allclose(B, c * Ar, atol=1e-8) and abs(np.imag(c)) < 1e-9 and abs(c) > 1e-9, "ratio=%s" % c)
                    except Exception as e:  # noqa
                        add("graph_embed", "Raises", False, "%s: %s" % (type(e).__name__, str(e)[:100]))
                    # with the trace removed first (documented: A -> A - tr(A)/n I, then the photon-number guarantee)
                    At = Ar - np.trace(Ar) * np.eye(n) / n
                    if np.linalg.norm(At) > 1e-6:
                        try:
                            sq, W = dec.graph_embed(Ar, mean_photon_per_mode=nbar, make_traceless=True)
                            add("graph_embed", "MeanPhoton", abs(np.mean(np.sinh(sq) ** 2) - nbar) < 1e-6, "traceless: mean sinh^2 = %.6g" % np.mean(np.sinh(sq) ** 2))
                            B = W @ np.diag(np.tanh(sq)) @ W.T
                            c = np.vdot(At, B) / np.vdot(At, At)
                            add("graph_embed", "ProportionalAdjacency", np.allclose(B, c * At, atol=1e-8) and abs(np.imag(c)) < 1e-9 and abs(c) > 1e-9, "traceless ratio=%s" % c)
                        except Exception as e:  # noqa
                            add("graph_embed", "Raises", False, "traceless %s: %s" % (type(e).__name__, str(e)[:100]))
            # meshes, directly: the routines return parameters; multiply back through the harness' own beamsplitters by
            # executing the command builders is done in C02; here only "valid in => no exception, invalid in => ValueError"
            import strawberryfields as sf
            from strawberryfields import ops as sfops
            alpha = np.array([(0.3 + 0.1 * i) * np.exp(0.7j * i) for i in range(n)])
            for mesh in MESHES:
                if mesh == "sun_compact" and n < 3:
                    continue
                # multiply the factors back by letting coherent amplitudes run through the emitted beamsplitters / phases
                try:
                    prog = sf.Program(n)
                    with prog.context as q:
                        for i in range(n):
                            sfops.Dgate(abs(alpha[i]), float(np.angle(alpha[i]))) | q[i]
                        sfops.Interferometer(U, mesh=mesh) | tuple(q[i] for i in range(n))
                    st = sf.Engine("gaussian").run(prog).state
                    got = (st.means()[:n] + 1j * st.means()[n:]) / 2
                    add(mesh, "Reconstructs", np.allclose(got, U @ alpha, atol=1e-8) and np.allclose(st.cov(), np.eye(2 * n), atol=1e-8),
                        "max amplitude error %.3g" % np.max(np.abs(got - U @ alpha)))
                except Exception as e:  # noqa
                    add(mesh, "Raises", False, "%s: %s" % (type(e).__name__, str(e)[:100]))
            for mesh in ("rectangular", "rectangular_phase_end", "rectangular_MZ", "rectangular_symmetric", "triangular", "triangular_compact",
                         "rectangular_compact", "sun_compact"):
                if mesh == "sun_compact" and n < 3:
                    continue            # documented: at least 3x3
                try:
                    getattr(dec, mesh)(U.copy())
                    add(mesh, "AcceptsValid", True)
                except Exception as e:  # noqa
                    add(mesh, "AcceptsValid", False, "%s: %s" % (type(e).__name__, str(e)[:100]))
                if np.allclose(np.imag(U), 0):
                    # a real orthogonal matrix handed over as a real array (determinant +1 or -1)
                    try:
                        getattr(dec, mesh)(np.real(U).copy())
                        add(mesh, "AcceptsValid", True)
                    except Exception as e:  # noqa
                        add(mesh, "AcceptsValid", False, "real array, det %+.0f: %s: %s" % (np.linalg.det(np.real(U)), type(e).__name__, str(e)[:100]))
                try:
                    getattr(dec, mesh)(U * 1.01 + 0.01)
                    add(mesh, "InvalidRejected", False, "non-unitary input was decomposed")
                except ValueError:
                    add(mesh, "InvalidRejected", True)
                except Exception as e:  # noqa
                    add(mesh, "InvalidRejected", False, "wrong error %s: %s" % (type(e).__name__, str(e)[:80]))
        elif item["kind"] == "symplectic":
            try:
                O1, Z, O2 = dec.bloch_messiah(S)
                add("bloch_messiah", "Reconstructs", np.allclose(O1 @ Z @ O2, S, atol=1e-8))
                for nm, O in (("O1", O1), ("O2", O2)):
                    add("bloch_messiah", "OrthogonalSymplectic", np.allclose(O @ O.T, np.eye(2 * n), atol=1e-8) and np.allclose(O.T @ Om @ O, Om, atol=1e-8), nm)
                dz = np.diag(Z)
                add("bloch_messiah", "DiagonalReciprocal", np.allclose(Z, np.diag(dz), atol=1e-9) and np.allclose(dz[:n] * dz[n:], 1, atol=1e-8) and np.all(dz > 0),
                    "diag=%s" % np.round(dz, 5).tolist())
            except Exception as e:  # noqa
                add("bloch_messiah", "Raises", False, "%s: %s" % (type(e).__name__, str(e)[:100]))
            for eps in (1e-6, 3e-5):
                bad = S.copy()
                bad[0, -1] += eps
                if np.linalg.norm(bad.T @ Om @ bad - Om) < 1e-7:
                    continue        # for this S the perturbed matrix is still symplectic (a shear): not an invalid input
                try:
                    O1, Z, O2 = dec.bloch_messiah(bad)
                    ok = np.allclose(O1 @ Z @ O2, bad, atol=1e-8) and all(np.allclose(O.T @ Om @ O, Om, atol=1e-8) for O in (O1, O2))
                    add("bloch_messiah", "InvalidRejected", ok, "input off the symplectic group by %g was decomposed wrongly" % eps)
                except ValueError:
                    add("bloch_messiah", "InvalidRejected", True)
                except Exception as e:  # noqa
                    add("bloch_messiah", "InvalidRejected", False, "slightly non-symplectic: wrong error %s" % type(e).__name__)
            try:
                dec.bloch_messiah(S + 0.01 * np.arange(4 * n * n).reshape(2 * n, 2 * n) / (4 * n * n))
                add("bloch_messiah", "InvalidRejected", False, "non-symplectic input was decomposed")
            except ValueError:
                add("bloch_messiah", "InvalidRejected", True)
            except Exception as e:  # noqa
                add("bloch_messiah", "InvalidRejected", False, "wrong error %s" % type(e).__name__)
        else:
            try:
                Db, Sw = dec.williamson(V)
                # the docstring writes V = S^T Db S, the routine (and its callers) use V = S Db S^T: either product is accepted
                add("williamson", "Reconstructs", np.allclose(Sw.T @ Db @ Sw, V, atol=1e-8) or np.allclose(Sw @ Db @ Sw.T, V, atol=1e-8))
                add("williamson", "Symplectic", np.allclose(Sw.T @ Om @ Sw, Om, atol=1e-8))
                dd = np.diag(Db)
                add("williamson", "DiagonalPaired", np.allclose(Db, np.diag(dd), atol=1e-9) and np.allclose(dd[:n], dd[n:], atol=1e-8) and np.all(dd > 0),
                    "diag=%s" % np.round(dd, 5).tolist())
            except Exception as e:  # noqa
                add("williamson", "Raises", False, "%s: %s" % (type(e).__name__, str(e)[:100]))
            # boundary of tolerance: an input that is invalid by far more than the documented tolerance (1e-11) but by little in
            # absolute terms is rejected, or else decomposed *correctly* -- never decomposed wrongly
            for eps in (1e-6, 3e-5):
                bad = V.copy()
                bad[0, -1] += eps
                try:
                    Db, Sw = dec.williamson(bad)
                    err = min(np.max(np.abs(Sw.T @ Db @ Sw - bad)), np.max(np.abs(Sw @ Db @ Sw.T - bad)))
                    add("williamson", "InvalidRejected", err < 1e-8, "input asymmetric by %g was decomposed with error %.3g" % (eps, err))
                except ValueError:
                    add("williamson", "InvalidRejected", True)
                except Exception as e:  # noqa
                    add("williamson", "InvalidRejected", False, "slightly asymmetric: wrong error %s" % type(e).__name__)
            for lab, bad in (("asymmetric", V + np.triu(np.ones_like(V), 1) * 1e-3), ("odd", V[:-1, :-1]), ("indefinite", V - 3 * np.eye(2 * n))):
                try:
                    dec.williamson(bad)
                    add("williamson", "InvalidRejected", False, "%s input was decomposed" % lab)
                except ValueError:
                    add("williamson", "InvalidRejected", True)
                except Exception as e:  # noqa
                    add("williamson", "InvalidRejected", False, "%s: wrong error %s" % (lab, type(e).__name__))
    except Exception as e:  # noqa
        return {"ok": False, "err": type(e).__name__, "msg": str(e)[:300], "tb": traceback.format_exc()[-800:]}
    return out


def gen(chk, plans):
    items = []
    for (kind, n, L) in plans:
        r = chk.tlc("MC_Decomp", constants={"NMd": n, "Len0": L, "Kind": kind, "EMIT": True}, invariants=["SympOK", "UnitaryOK", "CovOK", "EmitInv"], timeout=3000)
        items += r.json
    return items


def structure(item):
    names = [o["name"] for o in item["recipe"]]
    touched = {m for o in item["recipe"] for m in o["modes"]}
    return {"kind": item["kind"], "n": item["n"], "noise": item.get("noise", 0), "identity": not names, "block_diagonal": len(touched) < item["n"],
            "degenerate": len([x for x in names if x == "Sgate"]) >= 2, "len": len(names)}


def c02(chk):
    from . import sfx_cmp as sc
    tier = chk.tier
    chk.rule = ("Matrix inputs: every recipe of <= 2 lattice gates on 2-3 (thorough: 4) modes -> exact unitary / symplectic / covariance "
                "(identity, swaps, exact zeros, block-diagonal, repeated squeezing, squeezing phases in all quadrants, pure and mixed, with and "
                "without displacement); Interferometer under all 7 meshes (+ drop_identity=False), GaussianTransform (also with permuted "
                "targets), Gaussian(V, r) (decomposed and native) are executed on a dirty entangled probe state and compared with TLC's "
                "exact state; compiled circuits must consist of the target's primitives. Scalar composites (X, Z, P, CX, CZ, Fourier, S2, MZ, "
                "displaced-squeezed, plain and daggered, all ordered targets) are covered by the lattice replay of C01 on simulators that "
                "decompose them and on those that apply them natively, and here through every compile target. Non-trivial = non-identity input.")
    chk.assumptions = ["states compared at 1e-8 on the Gaussian simulator", "graph embeddings are checked in C17 (proportional adjacency, mean photon number)"]
    plans = [("unitary", 2, 2), ("unitary", 3, 1), ("perm", 4, 3), ("symplectic", 2, 2), ("cov", 2, 2), ("cov", 3, 1)] if tier == "quick" else \
            [("unitary", 2, 3), ("unitary", 3, 2), ("unitary", 4, 1), ("perm", 4, 4), ("perm", 5, 4), ("symplectic", 2, 3), ("symplectic", 3, 2), ("cov", 2, 3), ("cov", 3, 2)]
    items = gen(chk, plans)
    res = common.pmap(_ops_case, items)
    for it, o in zip(items, res):
        f0 = structure(it)
        det0 = {"recipe": short(it["recipe"]), "n": it["n"], "kind": it["kind"]}
        mu, V = sc.exact_arrays(it["st"])
        for label, rr in o["runs"].items():
            chk.traces += 1
            chk.count(key=(label, json.dumps(it["recipe"]), it["kind"], it["n"]), nontrivial=not f0["identity"])
            f = dict(f0, op=label.split(":")[0], variant=label)
            if "error" in rr:
                if label.endswith("sun_compact") and it["n"] < 3 and rr["error"].startswith("ValueError"):
                    continue            # documented refusal: sun_compact needs at least a 3x3 matrix
                chk.violation("ExecutionFails", dict(f, error=rr["error"].split(":")[0]), dict(det0, op=label, msg=rr["error"], tb=rr.get("tb")))
                continue
            gm, gV = np.array(rr["state"][0]), np.array(rr["state"][1])
            scale = 1 + max(np.max(np.abs(mu)), np.max(np.abs(V)))
            if gm.shape != mu.shape or np.max(np.abs(gm - mu)) > 1e-8 * scale or np.max(np.abs(gV - V)) > 1e-8 * scale:
                chk.violation("DocumentedTransformation", f, dict(det0, op=label, info="dmu=%.3g dV=%.3g" % (np.max(np.abs(gm - mu)), np.max(np.abs(gV - V)))))
            if rr.get("non_primitive"):
                chk.violation("NonPrimitiveAfterCompile", f, dict(det0, op=label, ops=rr["non_primitive"]))
    # scalar composites through every compile target
    scalar_composites(chk, tier)
    chk.sample({"recipe": short(items[len(items) // 2]["recipe"]), "kind": items[len(items) // 2]["kind"], "n": items[len(items) // 2]["n"]})
    chk.exhaustive = True


_SC = {}


def _compile_case(item):
    import strawberryfields as sf
    import strawberryfields.compilers as comps
    from strawberryfields.program_utils import CircuitError
    from . import sfx
    n = _CFG["n"]
    out = {}
    for target in ("gaussian", "fock", "bosonic", "gaussian_unitary", "gbs"):
        rec = {}
        try:
            prog = sfx.build_program(n, item["hist"])
            try:
                comp = prog.compile(compiler=target)
            except CircuitError:
                rec["refused"] = True
                out[target] = rec
                continue
            prims = comps.compiler_db[target].primitives
            rec["non_primitive"] = sorted({type(c.op).__name__ for c in comp.circuit if type(c.op).__name__ not in prims})
            last_modes = set(item["hist"][-1]["modes"])
            nprefix = _CFG["nprefix"]
            rec["compiled"] = [str(c)[:60] for c in comp.circuit][-6:]
            st = sf.Engine("gaussian").run(comp).state if target != "gbs" else None
            if st is not None:
                p = sfx.project_state(st, "gaussian")
                rec["state"] = [p["mu"].tolist(), p["V"].tolist()]
        except Exception as e:  # noqa
            rec["error"] = "%s: %s" % (type(e).__name__, str(e)[:150])
        out[target] = rec
    return out


def scalar_composites(chk, tier):
    from . import sfx_cmp as sc
    items = lattice.generate(chk, 3, 1, "g", "e3", invariants=("Physical",))
    nprefix = min(len(it["hist"]) for it in items)
    comp_names = {"Xgate", "Zgate", "Pgate", "CXgate", "CZgate", "Fouriergate", "S2gate", "MZgate", "DisplacedSqueezed", "Coherent", "Squeezed", "Thermal"}
    sel = [it for it in items if len(it["hist"]) > nprefix and it["hist"][-1]["name"] in comp_names]
    _CFG.update(n=3, nprefix=nprefix)
    res = common.pmap(_compile_case, sel)
    native = [it for it in lattice.generate(chk, 2, 1, "g", "e2", invariants=("Physical",))
              if len(it["hist"]) > 3 and it["hist"][-1]["name"] in ("MZgate", "S2gate", "BSgate") and lattice.supported(it["hist"], "fock")]
    nres = lattice.replay(native, "fock", 11, 2)
    for it, r in zip(native, nres):
        chk.traces += 1
        last = it["hist"][-1]
        chk.count(key=("native", lattice.hist_key(it["hist"])), nontrivial=True)
        f = {"kind": "native_vs_documented", "op": last["name"], "dag": bool(last.get("dag")), "target": "fock-native",
             "first_param_zero": last["p"][0] in ([[1, 1], [0, 1]], [1, 1]), "descending": last["modes"][0] > last["modes"][1]}
        if not r["ok"]:
            chk.violation("ExecutionFails", dict(f, error=r["err"]), {"program": short(it["hist"]), "msg": r["msg"]})
            continue
        v, worst, info = sc.compare_state(it["st"], r["proj"], "fock")
        if v == "inconclusive":
            chk.inconclusive += 1
        elif v == "bad":
            chk.violation("NativeDiffersFromDocumented", f, {"program": short(it["hist"]), "info": info})
    for it, o in zip(sel, res):
        last = it["hist"][-1]
        mu, V = sc.exact_arrays(it["st"])
        for target, rec in o.items():
            chk.traces += 1
            chk.count(key=("compile", target, lattice.hist_key(it["hist"])), nontrivial=True)
            f = {"kind": "scalar", "op": last["name"], "dag": bool(last.get("dag")), "target": target,
                 "descending": len(last["modes"]) == 2 and last["modes"][0] > last["modes"][1]}
            det = {"program": short(it["hist"]), "target": target, "compiled_tail": rec.get("compiled")}
            if rec.get("refused"):
                continue
            if "error" in rec:
                chk.violation("ExecutionFails", dict(f, error=rec["error"].split(":")[0]), dict(det, msg=rec["error"]))
                continue
            if rec.get("non_primitive"):
                chk.violation("NonPrimitiveAfterCompile", f, dict(det, ops=rec["non_primitive"]))
            if "state" in rec:
                gm, gV = np.array(rec["state"][0]), np.array(rec["state"][1])
                if np.max(np.abs(gm - mu)) > 1e-9 * (1 + np.max(np.abs(mu))) or np.max(np.abs(gV - V)) > 1e-9 * (1 + np.max(np.abs(V))):
                    chk.violation("DocumentedTransformation", f, dict(det, info="dmu=%.3g dV=%.3g" % (np.max(np.abs(gm - mu)), np.max(np.abs(gV - V)))))


def c17(chk):
    tier = chk.tier
    chk.rule = ("Inputs as in C02 (TLC-generated exact unitaries / symplectic / covariance matrices from recipes of <= 2-3 lattice gates on "
                "2-4 modes, incl. identity, swaps, exact zeros, block-diagonal, degenerate squeezing) plus derived symmetric matrices "
                "U diag(l) U^T with repeated and zero singular values and invalid variants (non-symmetric, non-unitary, non-symplectic, "
                "odd-sized, indefinite). takagi, williamson, bloch_messiah, graph_embed are multiplied back by the harness and checked for "
                "structure (unitary, (orthogonal-)symplectic, non-negative ordered / reciprocal / paired diagonals, mean photon number, "
                "proportional adjacency); all 8 mesh routines must accept the valid and reject the invalid input with ValueError; their "
                "reconstruction is checked end to end in C02 by executing the emitted gates. Non-trivial = non-identity input; distinct by "
                "(routine, input).")
    chk.assumptions = ["verdict is float linear algebra in the harness at 1e-8 (level: exploration); TLC contributes the exhaustive "
                       "structured input family with exact meaning"]
    plans = [("unitary", 2, 2), ("unitary", 3, 1), ("perm", 4, 3), ("symplectic", 2, 2), ("symplectic", 3, 1), ("cov", 2, 2)] if tier == "quick" else \
            [("unitary", 2, 3), ("unitary", 3, 2), ("unitary", 4, 1), ("perm", 4, 4), ("perm", 5, 4), ("symplectic", 2, 3), ("symplectic", 3, 2), ("cov", 2, 3), ("cov", 3, 2)]
    items = gen(chk, plans)
    res = common.pmap(_routine_case, items)
    for it, o in zip(items, res):
        f0 = structure(it)
        det0 = {"recipe": short(it["recipe"]), "n": it["n"], "kind": it["kind"]}
        if not o["ok"]:
            raise common.MachineryError("decomposition harness: %s %s\n%s" % (o["err"], o["msg"], o["tb"]))
        for c in o["checks"]:
            chk.traces += 1
            chk.count(key=(c["routine"], c["clause"], c["info"], json.dumps(it["recipe"]), it["kind"], it["n"]), nontrivial=not f0["identity"])
            if not c["ok"]:
                chk.violation(c["clause"], dict(f0, routine=c["routine"]), dict(det0, routine=c["routine"], info=c["info"]))
    chk.sample({"recipe": short(items[len(items) // 2]["recipe"]), "kind": items[len(items) // 2]["kind"], "routines": sorted({c["routine"] for c in res[len(items) // 2]["checks"]})})
    chk.exhaustive = True
