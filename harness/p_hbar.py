"""C15: predictions independent of hbar.  MC_Hbar.tla proves by self-composition that the hbar-free internal states of a
program and of its unit-rescaled twin coincide; the harness replays both at their hbar on every simulator and compares
(a) each run with the exact kernel state (means scale with sqrt(hbar), covariances with hbar), (b) dimensionless results
of the two runs with each other (mean photon numbers, Fock probabilities, vacuum fidelity)."""
import json
import traceback

import numpy as np

from . import common, lattice
from .lattice import short

_CFG = {}


def _run_one(item):
    from . import sfx
    cfg, cutoff, n, which = _CFG["cfg"], _CFG["cutoff"], _CFG["n"], _CFG["which"]
    try:
        prog = sfx.build_program(n, item[which])
        st = sfx.engine(cfg, cutoff).run(prog).state
        proj = sfx.project_state(st, cfg, cutoff)
        for k in ("mu_c", "V_c", "weights"):
            proj.pop(k, None)
        dim = {"nbar": [float(np.real(st.mean_photon(i)[0])) for i in range(st.num_modes)],
               "nvar": [float(np.real(st.mean_photon(i)[1])) for i in range(st.num_modes)],
               "fidvac": float(np.real(st.fidelity_vacuum()))}
        if hasattr(st, "purity"):
            dim["purity"] = float(np.real(st.purity()))
        if cfg != "bosonic":
            dim["p0"] = float(np.real(st.fock_prob([0] * st.num_modes, **({} if cfg != "gaussian" else {"cutoff": 6}))))
            dim["p1"] = float(np.real(st.fock_prob([1] + [0] * (st.num_modes - 1), **({} if cfg != "gaussian" else {"cutoff": 6}))))
        import strawberryfields as sf
        # every query is a pure function of the state: ask other questions, then ask the first ones again
        changed = []
        for name, call in (("is_coherent", lambda: st.is_coherent(0)), ("is_squeezed", lambda: st.is_squeezed(0)), ("squeezing", lambda: st.squeezing([0])),
                           ("displacement", lambda: st.displacement([0])), ("quad_expectation", lambda: st.quad_expectation(0, 0.3)),
                           ("wigner", lambda: st.wigner(0, np.array([0.0, 0.5]), np.array([0.0]))), ("reduced_dm", lambda: st.reduced_dm(0, **({"cutoff": 4} if cfg in ("gaussian", "bosonic") else {}))),
                           ("parity_expectation", lambda: st.parity_expectation([0])), ("poly_quad_expectation", lambda: st.poly_quad_expectation(np.eye(2 * st.num_modes), np.zeros(2 * st.num_modes), 0.0))):
            if not hasattr(st, name):
                continue
            try:
                call()
            except Exception:  # noqa: refusals are judged elsewhere (C16)
                continue
            again = [float(np.real(st.mean_photon(i)[0])) for i in range(st.num_modes)] + [float(np.real(st.fidelity_vacuum()))]
            if max(abs(x - y) for x, y in zip(again, dim["nbar"] + [dim["fidvac"]])) > 1e-9:
                changed.append(name)
                break
        return {"ok": True, "proj": proj, "dim": dim, "hbar": sf.hbar, "changed_by": changed}
    except Exception as e:  # noqa
        return {"ok": False, "err": type(e).__name__, "msg": str(e)[:300], "tb": traceback.format_exc()[-1000:]}


SAMPLE_PROGRAMS = ("homodyne", "homodyne_angle", "heterodyne", "msgate_shot", "homodyne_fock")


def _sample_one(item):
    """One measured program, random stream fixed by the seed: the hbar-free stream of draws is the same at every hbar, so a
    quadrature outcome is k times the outcome at k = 1 (a heterodyne outcome is dimensionless)."""
    kind, seed = item
    try:
        import strawberryfields as sf
        from strawberryfields import ops
        np.random.seed(seed)
        k = np.sqrt(sf.hbar / 2)
        prog = sf.Program(1)
        with prog.context as q:
            if kind.startswith("msgate"):
                ops.Squeezed(0.3, 0.4) | q[0]
                ops.Xgate(0.5 * k) | q[0]
                ops.MSgate(0.6, 0.3, r_anc=1.2, eta_anc=0.9, avg=False) | q[0]
            else:
                ops.Sgate(0.4, 0.3) | q[0]
                ops.Xgate(0.5 * k) | q[0]
                ops.Zgate(-0.3 * k) | q[0]
                if kind in ("homodyne", "homodyne_fock"):
                    ops.MeasureX | q[0]
                elif kind == "homodyne_angle":
                    ops.MeasureHomodyne(0.7) | q[0]
                else:
                    ops.MeasureHD | q[0]
        if kind == "homodyne_fock":
            eng = sf.Engine("fock", backend_options={"cutoff_dim": 12})
        else:
            eng = sf.Engine("bosonic" if kind.startswith("msgate") else ("gaussian" if seed % 2 else "bosonic"))
        res = eng.run(prog)
        if kind.startswith("msgate"):
            val = res.ancillae_samples[0][0]
        else:
            val = res.samples[0][0]
        st = res.state
        out = {"ok": True, "val": [float(np.real(val)), float(np.imag(val))], "hbar": sf.hbar,
               "nbar": float(np.real(st.mean_photon(0)[0])) if kind != "homodyne_fock" else 0.0}
        if kind.startswith("msgate"):
            out["mean"] = [float(np.real(st.quad_expectation(0, ang)[0])) / k for ang in (0.0, np.pi / 2)]
        return out
    except Exception as e:  # noqa
        return {"ok": False, "err": type(e).__name__, "msg": str(e)[:300], "tb": traceback.format_exc()[-1000:]}


def _samples(chk, ks):
    """Outcome scaling: MC_Hbar's law for a measured quadrature (outcome = k x hbar-free outcome) against sampled runs."""
    seeds = list(range(11, 11 + (4 if chk.tier == "quick" else 16)))
    items = [(kind, sd) for kind in SAMPLE_PROGRAMS for sd in seeds]
    runs = {}
    for k in ks:
        runs[k] = common.pmap(_sample_one, items, hbar=2.0 * (k[0] / k[1]) ** 2)
    base = ks[0]
    for idx, (kind, sd) in enumerate(items):
        f = {"backend": "fock" if kind == "homodyne_fock" else ("bosonic" if kind.startswith("msgate") or sd % 2 == 0 else "gaussian"),
             "op": kind, "measures": True, "sampled": True}
        chk.count(key=("sample", kind, sd), nontrivial=True)
        ref = runs[base][idx]
        for k in ks:
            o = runs[k][idx]
            chk.traces += 1
            det = {"program": kind, "seed": sd, "k": k, "k_ref": base}
            if not o["ok"]:
                chk.violation("UnexpectedError", dict(f, error=o["err"]), dict(det, msg=o["msg"]))
                continue
            if not ref["ok"] or k == base:
                continue
            scale = 1.0 if kind == "heterodyne" else (k[0] / k[1]) / (base[0] / base[1])
            want = [scale * x for x in ref["val"]]
            tol = 1e-6
            if max(abs(x - y) for x, y in zip(want, o["val"])) > tol * (1 + max(abs(x) for x in want)):
                chk.violation("OutcomeScaling", f, dict(det, outcome=o["val"], outcome_ref=ref["val"], expected=want))
            if abs(o["nbar"] - ref["nbar"]) > 1e-6 * (1 + abs(ref["nbar"])):
                chk.violation("DimensionlessDiffers", dict(f, quantity="nbar"), dict(det, hbar1=ref["nbar"], hbar2=o["nbar"]))
            if "mean" in o and max(abs(x - y) for x, y in zip(o["mean"], ref["mean"])) > 1e-6:
                chk.violation("ScalingLaw", dict(f, at="conditional"), dict(det, mean=o["mean"], mean_ref=ref["mean"]))
    chk.sample({"config": "sampled outcomes", "programs": list(SAMPLE_PROGRAMS), "seeds": len(seeds), "k": [list(k) for k in ks]})


def c15(chk):
    from . import sfx_cmp as sc
    tier = chk.tier
    chk.rule = ("TLC (MC_Hbar) enumerates programs over position/momentum-unit gates (X, Z), homodyne post-selection, Gaussian "
                "gates, channels and preparations for a pair (k1, k2) of hbar factors, with the documented rescaling; each is run at "
                "both hbar values on every simulator; compared: kernel-unit state vs exact state (= scaling law of means and "
                "covariances), and mean photon number / variance, vacuum fidelity, Fock probabilities between the two runs. "
                "Sampled outcomes (homodyne on every simulator, heterodyne, the single-shot measurement-based squeezer's ancilla) are "
                "replayed with the same random stream at each hbar and must follow the same law: quadrature outcome = k x hbar-free "
                "outcome, heterodyne outcome unchanged, conditional state equal in kernel units. "
                "Non-trivial = program contains at least one unit-carrying operation after the prefix.")
    chk.assumptions = ["hbar = 2 k^2 with rational k in {1, 1/2, 3/2, 2}; after homodyne the comparison is at 1e-5 (finite squeezing eps)"]
    pairs = [((1, 1), (1, 2)), ((3, 2), (2, 1))] if tier == "quick" else [((1, 1), (1, 2)), ((3, 2), (2, 1)), ((1, 2), (3, 2)), ((2, 1), (1, 1))]
    for (k1, k2) in pairs:
        plans = [(2, 2, [("gaussian", None), ("bosonic", None)]), (1, 1, [("gaussian", None), ("bosonic", None)])] + \
                ([(2, 1, [("fock", 12), ("fockmixed", 9)])] if (k1, k2) == pairs[0] else [])
        if tier != "quick":
            plans = [(2, 2, [("gaussian", None), ("bosonic", None), ("fock", 12), ("fockmixed", 9)]), (3, 1, [("gaussian", None), ("bosonic", None), ("fock", 9)]),
                     (1, 2, [("gaussian", None), ("bosonic", None), ("fock", 14)])]
        for (n, depth, cfgs) in plans:
            r = chk.tlc("MC_Hbar", spec="SpecH", constants={"N": n, "Depth": depth, "AlphaId": "q", "PrefixId": "vac", "KNum": k1[0], "KDen": k1[1],
                                                           "K2Num": k2[0], "K2Den": k2[1], "EMIT": True}, invariants=["HbarFree", "EmitH"])
            items = r.json
            for cfg, cutoff in cfgs:
                sel = [it for it in items if lattice.supported(it["hist"], cfg)]
                runs = []
                for which, k in (("hist", k1), ("hist2", k2)):
                    _CFG.update(cfg=cfg, cutoff=cutoff, n=n, which=which)
                    common.warm(fock=cfg.startswith("fock"))
                    runs.append(common.pmap(_run_one, sel, hbar=2.0 * (k[0] / k[1]) ** 2))
                for it, a, b in zip(sel, runs[0], runs[1]):
                    chk.traces += 2
                    names = [o["name"] for o in it["hist"][3:]]
                    meas = "MeasureHomodyne" in [o["name"] for o in it["hist"]]
                    f = {"backend": cfg, "op": names[-1] if names else "prefix", "measures": meas}
                    chk.count(key=(cfg, str(k1), str(k2), json.dumps(it["hist"])), nontrivial=bool(names))
                    det = {"config": cfg, "cutoff": cutoff, "k1": k1, "k2": k2, "program": short(it["hist"]), "rescaled": short(it["hist2"])}
                    bad = False
                    for lab, o in (("hbar1", a), ("hbar2", b)):
                        if not o["ok"]:
                            chk.violation("UnexpectedError", dict(f, error=o["err"], at=lab), dict(det, msg=o["msg"]))
                            bad = True
                            continue
                        v, worst, info = sc.compare_state(it["st"], o["proj"], cfg, coarse=meas)
                        if v == "inconclusive":
                            chk.inconclusive += 1
                            bad = True
                        elif v == "bad":
                            chk.violation("ScalingLaw", dict(f, at=lab), dict(det, info=info, hbar=o["hbar"]))
                            bad = True
                    for lab, o in (("hbar1", a), ("hbar2", b)):
                        if o.get("ok") and o.get("changed_by"):
                            chk.violation("QueryChangesState", dict(f, method=o["changed_by"][0], at=lab), dict(det, hbar=o["hbar"]))
                    if bad:
                        continue
                    tol = 1e-9 if not cfg.startswith("fock") else 1e-4
                    if meas:
                        tol = max(tol, 1e-5 if not cfg.startswith("fock") else 2e-3)
                    for key in a["dim"]:
                        x, y = np.atleast_1d(a["dim"][key]), np.atleast_1d(b["dim"][key])
                        d = float(np.max(np.abs(x - y)))
                        if d > tol * (1 + float(np.max(np.abs(x)))):
                            chk.violation("DimensionlessDiffers", dict(f, quantity=key), dict(det, hbar1=a["dim"][key], hbar2=b["dim"][key]))
                mid = sel[len(sel) // 2]
                chk.sample({"config": cfg, "k1": k1, "k2": k2, "program": short(mid["hist"]), "rescaled": short(mid["hist2"])})
    # non-Gaussian programs (cubic phase and Kerr gates): self-composition on the finite phase space, replay on the Fock simulators
    for (k1, k2) in pairs[:1] if tier == "quick" else pairs:
        for (n, depth, cfgs) in ([(1, 2, [("fock", 16)])] if tier == "quick" else [(1, 2, [("fock", 18), ("fockmixed", 12)]), (2, 1, [("fock", 10)])]):
            r = chk.tlc("MC_HbarNG", constants={"N": n, "Depth": depth, "KNum": k1[0], "KDen": k1[1], "K2Num": k2[0], "K2Den": k2[1], "EMIT": True},
                        invariants=["HbarFreeFinite", "EmitInv"])
            items = [it for it in r.json if any(o["name"] in ("Vgate", "Kgate") for o in it["hist"])]
            for cfg, cutoff in cfgs:
                runs = []
                for which, k in (("hist", k1), ("hist2", k2)):
                    _CFG.update(cfg=cfg, cutoff=cutoff, n=n, which=which)
                    common.warm(fock=True)
                    runs.append(common.pmap(_run_one, items, hbar=2.0 * (k[0] / k[1]) ** 2))
                for it, a, b in zip(items, runs[0], runs[1]):
                    chk.traces += 2
                    names = [o["name"] for o in it["hist"][2:]]
                    f = {"backend": cfg, "op": "+".join(sorted(set(names))), "measures": False, "non_gaussian": True}
                    chk.count(key=(cfg, str(k1), str(k2), json.dumps(it["hist"])), nontrivial=True)
                    det = {"config": cfg, "cutoff": cutoff, "k1": k1, "k2": k2, "program": short(it["hist"]), "rescaled": short(it["hist2"])}
                    if not a["ok"] or not b["ok"]:
                        o = a if not a["ok"] else b
                        chk.violation("UnexpectedError", dict(f, error=o["err"]), dict(det, msg=o["msg"]))
                        continue
                    tr = min(a["proj"].get("trace", 1.0), b["proj"].get("trace", 1.0))
                    if tr < 1 - 1e-3:
                        chk.inconclusive += 1
                        continue
                    tol = 3 * cutoff * (max(0.0, 1 - tr)) ** 0.5 + 1e-6
                    for key in a["dim"]:
                        x, y = np.atleast_1d(a["dim"][key]), np.atleast_1d(b["dim"][key])
                        d = float(np.max(np.abs(x - y)))
                        if d > tol * (1 + float(np.max(np.abs(x)))):
                            chk.violation("DimensionlessDiffers", dict(f, quantity=key), dict(det, hbar1=a["dim"][key], hbar2=b["dim"][key], tol=tol))
                    # quadrature means scale with sqrt(hbar), covariances with hbar
                    # (project_state reports moments in hbar-free kernel units, i.e. already divided by sqrt(hbar/2) and hbar/2)
                    ma, mb = np.array(a["proj"]["mu"]), np.array(b["proj"]["mu"])
                    Va, Vb = np.array(a["proj"]["V"]), np.array(b["proj"]["V"])
                    d = float(max(np.max(np.abs(ma - mb)), np.max(np.abs(Va - Vb))))
                    if d > 4 * tol * (1 + float(np.max(np.abs(Va)))):
                        chk.violation("ScalingLaw", dict(f, at="pair"), dict(det, diff=d, tol=tol))
            chk.sample({"config": "fock", "k1": k1, "k2": k2, "program": short(items[len(items) // 2]["hist"]), "rescaled": short(items[len(items) // 2]["hist2"])})
    _samples(chk, [(1, 1), (1, 2), (3, 2)] if tier == "quick" else [(1, 1), (1, 2), (3, 2), (2, 1)])
    chk.exhaustive = True
