"""C19: GBS application helpers.  The real functions are run with numpy.random.choice intercepted: the candidates handed
to the generator are recorded and every tie-break is forced in turn, so ALL behaviours of the code on an input are
explored; the observed (state, successor set, candidate count, stop) records are validated by TLC against
spec/GBSApps.tla (TraceApps.tla).  Cardinalities / orbits / conversions are compared as exact integers."""
import itertools
import json
import random
import traceback
from fractions import Fraction

from . import common, tracecases

_CFG = {}


def canon(x):
    """exact value -> canonical rational for TLC ([num, den], component as decimal string when it does not fit int32)"""
    f = Fraction(x)

    def c(v):
        return v if -2 ** 31 < v < 2 ** 31 else str(v)
    return [c(f.numerator), c(f.denominator)]


class Forcer:
    def __init__(self, script):
        self.script = list(script)
        self.counts = []
        self.picks = []
        self.pargs = []

    def choice(self, a, size=None, replace=True, p=None):
        import numpy as np
        arr = np.arange(a) if isinstance(a, (int, np.integer)) else np.asarray(a)
        k = len(self.counts)
        pick = self.script[k] if k < len(self.script) else 0
        if p is not None and k >= len(self.script):
            pick = next(i for i, x in enumerate(p) if x > 0)       # a real generator never returns a zero-probability index
        self.counts.append(len(arr))
        self.picks.append(pick)
        self.pargs.append(None if p is None else [float(x) for x in p])
        return arr[pick]


def explore(run):
    """run(forcer) -> observation; explores every script of forced choices; yields (forcer, observation)"""
    stack = [[]]
    seen = 0
    while stack:
        script = stack.pop()
        f = Forcer(script)
        obs = run(f)
        seen += 1
        yield f, obs
        for k in range(len(script), len(f.counts)):
            for j in range(1, f.counts[k]):
                stack.append(f.picks[:k] + [j])
        if seen > 3000:
            raise RuntimeError("exploration too large")


LABELS = {"canonical": None, "shifted": [1, 2, 3, 4, 5, 6, 7], "scrambled": [5, 2, 7, 0, 3, 9, 4]}


def _graph(n, edges, labels=None):
    """graph on n nodes; with `labels` the node at position i of graph.nodes carries the label labels[i] (the apps address weights
    by position and return node labels)"""
    import networkx as nx
    g = nx.Graph()
    lab = list(range(n)) if labels is None else list(labels[:n])
    g.add_nodes_from(lab)
    g.add_edges_from((lab[a], lab[b]) for a, b in edges)
    return g


def _explore_case(case):
    """worker: one (fn, graph, start, mode, weights) input -> list of step records"""
    import numpy as np
    from strawberryfields.apps import clique as cq, subgraph as sg
    n, edges, start, mode, w, fn = case["n"], case["edges"], case["start"], case["mode"], case["w"], case["fn"]
    lab = LABELS[case.get("labels", "canonical")]
    lab = list(range(n)) if lab is None else lab[:n]
    inv = {l: i for i, l in enumerate(lab)}
    g = _graph(n, edges, lab)
    start = [lab[i] for i in start]              # the routines see labels; all records are in canonical positions
    sel = mode if mode != "weight" else list(w)
    base = {"kind": "step", "n": n, "edges": [list(e) for e in edges], "w": list(w), "mode": mode, "limit": False}
    agg = {}
    orig_choice = np.random.choice

    def note(fnname, state, succ, ncand, stopped, limit=False):
        key = (fnname, tuple(sorted(inv[x] for x in state)))
        r = agg.setdefault(key, {"succs": set(), "ncand": 0, "stopped": False, "limit": limit})
        if succ is not None:
            r["succs"].add(tuple(sorted(inv[x] for x in succ)))
        r["ncand"] = max(r["ncand"], int(ncand))
        r["stopped"] = r["stopped"] or stopped
    try:
        if fn in ("grow", "shrink"):
            states = []
            if fn == "grow":
                real = cq.c_0

                def wrap(c, gr):
                    states.append(set(c))
                    return real(c, gr)
                cq.c_0 = wrap
            else:
                real = cq.is_clique

                def wrap(gr):
                    states.append(set(gr.nodes()))
                    return real(gr)
                cq.is_clique = wrap
            try:
                def run(f):
                    states.clear()
                    np.random.choice = f.choice
                    try:
                        return (cq.grow if fn == "grow" else cq.shrink)(list(start), g, node_select=sel)
                    finally:
                        np.random.choice = orig_choice
                for f, out in explore(run):
                    st = [s for i, s in enumerate(states) if i == 0 or s != states[i - 1]] if fn == "grow" else list(states)
                    if fn == "grow":
                        st = list(states)
                    for k in range(len(f.counts)):
                        note(fn, st[k], st[k + 1], f.counts[k], False)
                    note(fn, st[len(f.counts)], None, 0, True)
                    if set(out) != st[len(f.counts)]:
                        note(fn, st[len(f.counts)], out, 0, True)
            finally:
                if fn == "grow":
                    cq.c_0 = real
                else:
                    cq.is_clique = real
        elif fn == "swap":
            def run(f):
                np.random.choice = f.choice
                try:
                    return cq.swap(list(start), g, node_select=sel)
                finally:
                    np.random.choice = orig_choice
            for f, out in explore(run):
                if f.counts:
                    note(fn, start, out, f.counts[0], False)
                else:
                    note(fn, start, None if set(out) == set(start) else out, 0, True)
        elif fn == "resize":
            def run(f):
                np.random.choice = f.choice
                try:
                    return sg.resize(list(start), g, 1, n - 1, node_select=sel)
                finally:
                    np.random.choice = orig_choice
            s0 = len(start)
            for f, out in explore(run):
                if sorted(out.keys()) != list(range(1, n)):
                    return [{"error": "ResizeSizes", "msg": "returned sizes %s, expected 1..%d" % (sorted(out.keys()), n - 1), "case": case}]
                up = [out[k] for k in range(s0, n)] if s0 <= n - 1 else []
                down = [out[k] for k in range(min(s0, n - 1), 0, -1)]
                ngrow = max(0, n - 1 - s0)
                for k in range(len(up) - 1):
                    note("rgrow", up[k], up[k + 1], f.counts[k], False)
                if up:
                    note("rgrow", up[-1], None, 0, True, limit=True)
                for k in range(len(down) - 1):
                    note("rshrink", down[k], down[k + 1], f.counts[ngrow + k], False)
                if down:
                    note("rshrink", down[-1], None, 0, True, limit=True)
                for size, sub in out.items():
                    if len(set(sub)) != size or not set(sub) <= set(lab) or list(sub) != sorted(sub):
                        return [{"error": "ResizeNotASubset", "msg": "size %d -> %s" % (size, sub), "case": case}]
    except Exception as e:  # noqa
        return [{"error": type(e).__name__, "msg": str(e)[:200], "tb": traceback.format_exc()[-800:], "case": case}]
    recs = []
    for (fnname, state), r in agg.items():
        recs.append(dict(base, fn=fnname, state=list(state), succs=[list(s) for s in sorted(r["succs"])], ncand=r["ncand"],
                         stopped=bool(r["stopped"] and not r["succs"]), limit=r["limit"]))
    return recs


def _combinatorics(arg):
    """worker: exact combinatorics cases for one photon number"""
    import numpy as np
    from strawberryfields.apps import similarity as sim
    photons, modes_list, maxcs = arg
    out = []
    try:
        orbs = list(sim.orbits(photons))
        out.append({"kind": "orbits", "photons": photons, "out": [list(map(int, o)) for o in orbs]})
        for o in orbs:
            for m in modes_list:
                if m >= len(o):
                    v = sim.orbit_cardinality(list(o), m)
                    out.append({"kind": "card", "fn": "orbit_cardinality", "orbit": list(map(int, o)), "modes": m, "out": canon(Fraction(v)),
                                "photons": 0, "maxc": 0})
        for m in modes_list:
            for mc in maxcs:
                if mc * m >= photons:
                    v = sim.event_cardinality(photons, mc, m)
                    out.append({"kind": "card", "fn": "event_cardinality", "photons": photons, "maxc": mc, "modes": m, "out": canon(Fraction(v)),
                                "orbit": []})
        # probabilities handed to the generator by event_to_sample, for a *sequence* of calls with different mode counts
        orig = np.random.choice
        for mc in maxcs:
            for m in [mm for mm in modes_list if mm <= 12 and mc * mm >= photons]:
                f = Forcer([])
                np.random.choice = f.choice
                try:
                    s = sim.event_to_sample(photons, mc, m)
                finally:
                    np.random.choice = orig
                p = f.pargs[0]
                evorbs = [list(map(int, o)) for o in sim.orbits(photons) if max(o) <= mc]
                if p is not None and len(p) == len(evorbs):
                    out.append({"kind": "eventp", "photons": photons, "maxc": mc, "modes": m, "orbs": evorbs,
                                "p": [canon(Fraction(x).limit_denominator(10 ** 12)) for x in p]})
                else:
                    out.append({"error": "EventToSampleShape", "msg": "p=%s orbits=%s" % (p, evorbs)})
                ev = sim.sample_to_event(list(s), mc)
                out.append({"kind": "conv", "sample": [int(x) for x in s], "orbit": [int(x) for x in sim.sample_to_orbit(list(s))],
                            "event": -1 if ev is None else int(ev), "maxc": mc})
                if ev != photons or len(s) != m:
                    out.append({"error": "EventToSampleWrong", "msg": "event_to_sample(%d,%d,%d) -> %s" % (photons, mc, m, s)})
        for o in orbs[:6]:
            for m in (len(o), len(o) + 2):
                s = sim.orbit_to_sample(list(o), m)
                if sim.sample_to_orbit(list(s)) != list(o) or len(s) != m:
                    out.append({"error": "OrbitToSampleWrong", "msg": "orbit_to_sample(%s,%d) -> %s" % (o, m, s)})
    except Exception as e:  # noqa
        out.append({"error": type(e).__name__, "msg": str(e)[:200], "tb": traceback.format_exc()[-600:]})
    return out


def _conv_cases(arg):
    from strawberryfields.apps import similarity as sim
    from strawberryfields.apps import sample as smp
    out = []
    for s in arg:
        # sample -> node subset: the clicked modes, each once, as labels of the graph (canonical and relabelled)
        for lname in ("canonical", "scrambled", "permuted"):
            # "permuted": the labels are 0..n-1 but not in insertion order (mode i is the i-th node of graph.nodes, not node i)
            lab = list(range(len(s))) if lname == "canonical" else (list(range(len(s)))[::-1] if lname == "permuted" else LABELS[lname][:len(s)])
            try:
                g = _graph(len(s), [(i, i + 1) for i in range(len(s) - 1)], lab)
                sub = smp.to_subgraphs([list(s)], g)[0]
                want = [lab[i] for i, c in enumerate(s) if c > 0]
                if sorted(sub, key=str) != sorted(want, key=str) or len(set(sub)) != len(sub):
                    out.append({"error": "SubgraphNotTheClickedModes", "msg": "sample %s on labels %s -> %s, expected %s" % (list(s), lab, sub, want)})
                mc = smp.modes_from_counts(list(s))
                if list(mc) != [i for i, c in enumerate(s) for _ in range(c)]:
                    out.append({"error": "ModesFromCounts", "msg": "sample %s -> %s" % (list(s), mc)})
            except Exception as e:  # noqa
                out.append({"error": type(e).__name__, "msg": "to_subgraphs(%s): %s" % (list(s), str(e)[:120])})
        for mc in (1, 2, 3):
            ev = sim.sample_to_event(list(s), mc)
            out.append({"kind": "conv", "sample": list(s), "orbit": [int(x) for x in sim.sample_to_orbit(list(s))],
                        "event": -1 if ev is None else int(ev), "maxc": mc})
    return out


def _search_case(case):
    """worker: subgraph.search / clique.search end-to-end structural checks + densities (exact, by TLC)"""
    import numpy as np
    import networkx as nx
    from strawberryfields.apps import clique as cq, subgraph as sg
    n, edges = case["n"], case["edges"]
    g = _graph(n, edges)
    if case["seed"] % 2:
        # edge weights (as in nx.Graph(A) for a real matrix A) do not enter the density, a count of edges
        for k, (a, b) in enumerate(list(g.edges)):
            g[a][b]["weight"] = 1.5 + k
    out = []
    try:
        np.random.seed(case["seed"])
        starts = case["starts"]
        d = sg.search([list(s) for s in starts], g, 1, n - 1, max_count=case["max_count"])
        for size, lst in d.items():
            if len(lst) > case["max_count"]:
                out.append({"error": "SearchTooMany", "msg": "size %d holds %d > max_count" % (size, len(lst))})
            if [x[0] for x in lst] != sorted([x[0] for x in lst], reverse=True):
                out.append({"error": "SearchNotRanked", "msg": str(lst)})
            if len({tuple(x[1]) for x in lst}) != len(lst):
                out.append({"error": "SearchDuplicates", "msg": str(lst)})
            for dens, sub in lst:
                if len(set(sub)) != size or not set(sub) <= set(range(n)):
                    out.append({"error": "SearchNotASubset", "msg": "size %d: %s" % (size, sub)})
                out.append({"kind": "density", "n": n, "edges": [list(e) for e in edges], "state": list(map(int, sub)),
                            "out": canon(Fraction(dens).limit_denominator(10 ** 6))})
        for s in starts:
            if cq.is_clique(g.subgraph(s)):
                c = cq.search(list(s), g, 3)
                if not cq.is_clique(g.subgraph(c)) or not set(s) <= set(c) and len(c) < len(s):
                    out.append({"error": "CliqueSearchNotClique", "msg": "%s -> %s" % (s, c)})
    except Exception as e:  # noqa
        out.append({"error": type(e).__name__, "msg": str(e)[:200], "tb": traceback.format_exc()[-600:]})
    return out


def all_graphs(n):
    pairs = list(itertools.combinations(range(n), 2))
    for mask in range(2 ** len(pairs)):
        yield [pairs[i] for i in range(len(pairs)) if mask >> i & 1]


def c19(chk):
    tier = chk.tier
    rnd = random.Random(chk.seed)
    chk.rule = ("All graphs on 4 nodes (quick; + a seed-dependent sample on 5) / 5 nodes (thorough) x all start sets x selection modes x "
                "weight vectors over {1,2,3}: grow, swap, shrink, resize are run with every random tie-break forced in turn; every visited "
                "(state, successor set, candidate count, stop) record is validated by TLC against the enabled sets of GBSApps.tla. Orbits, "
                "orbit/event cardinalities (photons <= 8/10, modes up to 60/200), event_to_sample probabilities and sample conversions are "
                "validated as exact integers/rationals. Non-trivial = record with >= 2 candidates or >= 1 successor; distinct by record.")
    chk.assumptions = ["numpy.random.choice is the only source of randomness in the clique/subgraph routines (intercepted in-process)",
                       "resize is driven with min_size=1, max_size=n-1 so that every intermediate subgraph is returned"]
    chk.tlc("MC_Clique", constants={"NN": 3 if tier == "quick" else 4},
            invariants=["AlwaysClique", "GrowIsMaximal", "ShrinkEndsInClique", "ResizeNeverStuck"], properties=["SwapKeepsSize", "OneNodePerStep"])
    graphs = [(4, e) for e in all_graphs(4)]
    g5 = [(5, e) for e in all_graphs(5)]
    graphs += g5 if tier != "quick" else rnd.sample(g5, 40)
    wvecs = {4: [(1, 2, 2, 1), (3, 1, 2, 3), (2, 2, 2, 2)], 5: [(1, 2, 2, 1, 3), (3, 1, 2, 3, 1)]}
    cases = []
    for n, edges in graphs:
        es = {frozenset(e) for e in edges}
        for k in range(0, n + 1):
            for start in itertools.combinations(range(n), k):
                clique = all(frozenset(p) in es for p in itertools.combinations(start, 2))
                for mode in ("uniform", "degree", "weight"):
                    ws = wvecs[n] if mode == "weight" else [tuple([1] * n)]
                    for w in ws:
                        if clique:
                            cases.append({"fn": "grow", "n": n, "edges": edges, "start": start, "mode": mode, "w": w})
                            cases.append({"fn": "swap", "n": n, "edges": edges, "start": start, "mode": mode, "w": w})
                        if mode != "degree":
                            cases.append({"fn": "shrink", "n": n, "edges": edges, "start": start, "mode": mode, "w": w})
                            if 1 <= k <= n - 1:
                                cases.append({"fn": "resize", "n": n, "edges": edges, "start": start, "mode": mode, "w": w})
    if tier == "quick":
        cases = [c for c in cases if c["n"] == 4] + rnd.sample([c for c in cases if c["n"] == 5], min(3000, len([c for c in cases if c["n"] == 5])))
    # the same inputs on graphs whose node labels are not 0..n-1 in insertion order (weights are addressed by position)
    relab = [dict(c, labels=lb) for k, c in enumerate(cases) for lb in ("shifted", "scrambled")
             if c["n"] == 4 and (tier != "quick" or k % 4 == chk.seed % 4)]
    cases = cases + relab
    res = common.pmap(_explore_case, cases)
    recs = []
    for lst in res:
        for r in lst:
            if "error" in r:
                c = r.get("case", {})
                chk.violation("UnexpectedError" if r["error"][0].isupper() and "Error" in r["error"] else r["error"],
                              {"fn": c.get("fn"), "mode": c.get("mode"), "error": r["error"]}, r)
            else:
                recs.append(r)
    # de-duplicate identical records (different start sets reach the same states)
    uniq = {}
    for r in recs:
        uniq[json.dumps(r, sort_keys=True)] = r
    recs = list(uniq.values())
    photons = range(1, 9) if tier == "quick" else range(1, 11)
    modes_list = [1, 2, 3, 4, 5, 8, 12, 20, 24, 25, 30, 40, 60] + ([100, 171, 200] if tier != "quick" else [])
    comb = common.pmap(_combinatorics, [(p, modes_list, [1, 2, 3, 6]) for p in photons])
    samples = [s for m in (1, 2, 3, 4) for s in itertools.product(range(4), repeat=m) if sum(s) > 0]
    conv = common.pmap(_conv_cases, [samples[i::16] for i in range(16)])
    srch = common.pmap(_search_case, [{"n": n, "edges": e, "seed": chk.seed + i, "max_count": 1 + i % 3,
                                       "starts": [s for k in (1, 2, 3) for s in itertools.combinations(range(n), k)][: 8 + i % 5]}
                                      for i, (n, e) in enumerate(graphs) if n == 4 or i % 7 == 0])
    others = []
    for lst in comb + conv + srch:
        for r in lst:
            if "error" in r:
                chk.violation(r["error"] if not r["error"].endswith("Error") else "UnexpectedError", {"fn": "similarity/search", "error": r["error"]}, r)
            else:
                others.append(r)
    allc = recs + others
    # uniform record shape for TLC (JsonDeserialize needs every field the verdict touches)
    verdicts = tracecases.validate(chk, "TraceApps", allc, "apps", chunk=6000)
    for k, r in enumerate(allc):
        v = verdicts[k]["verdict"]
        chk.traces += 1
        nontriv = r["kind"] != "step" or r["ncand"] >= 2 or len(r["succs"]) >= 1
        chk.count(key=json.dumps(r, sort_keys=True), nontrivial=nontriv)
        if v != "accepted":
            f = {"kind": r["kind"], "fn": r.get("fn"), "mode": r.get("mode")}
            if r["kind"] == "card":
                f["modes_ge_24"] = r["modes"] >= 24
                f["orbit_longer_than_modes"] = len(r.get("orbit", [])) > r["modes"]
            chk.violation(v, f, r)
    for k in (0, len(recs) // 2, len(allc) - 1):
        chk.sample({"record": allc[k], "verdict": verdicts[k]["verdict"]})
    chk.notes["step_records"] = len(recs)
    chk.notes["inputs_explored"] = len(cases)
    chk.exhaustive = tier != "quick"
