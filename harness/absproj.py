"""Projection of real strawberryfields commands back to the spec's abstract operations, with exact recovery of
lattice parameters (rationals with bounded denominators, verified to 1e-9).  Used wherever the verdict is a
TLC-evaluated denotation of what the code returned (C03, C11, C14, C18)."""
import math
from fractions import Fraction

from .sfx import KINDS

MAXDEN = 10 ** 9


class Unrecoverable(Exception):
    pass


def rat(x, tol=1e-9):
    """exact recovery of a lattice rational: a small denominator AND agreement to (nearly) double precision -- any real has a
    rational within 1e-9 once denominators up to 1e9 are allowed, which would turn an off-lattice value (e.g. the product of two
    logarithms) into an arbitrary fraction"""
    x = float(x)
    for den, t in ((10 ** 5, 1e-13), (10 ** 6, 1e-14)):
        f = Fraction(x).limit_denominator(den)
        if abs(float(f) - x) <= t * (1 + abs(x)):
            return [f.numerator, f.denominator]
    raise Unrecoverable("real %r" % x)


def angle(x):
    x = float(x)
    c = Fraction(math.cos(x)).limit_denominator(10 ** 7)       # c^2 + s^2 = 1 exactly is the real test
    s = Fraction(math.sin(x)).limit_denominator(10 ** 7)
    if abs(float(c) - math.cos(x)) > 1e-12 or abs(float(s) - math.sin(x)) > 1e-12 or c * c + s * s != 1:
        raise Unrecoverable("angle %r" % x)
    return [[c.numerator, c.denominator], [s.numerator, s.denominator]]


def recover(kind, v):
    import numpy as np
    v = np.asarray(v)
    if v.shape != ():
        raise Unrecoverable("array parameter")
    if np.iscomplexobj(v) and abs(v.imag) > 1e-12:
        raise Unrecoverable("complex parameter")
    v = float(np.real(v))
    if kind == "angle":
        return angle(v)
    if kind == "sq":
        return rat(math.exp(v))
    if kind == "real":
        return rat(v)
    if kind == "trans":
        if v < 0:
            raise Unrecoverable("negative T")
        return rat(math.sqrt(v))
    raise Unrecoverable(kind)


def project_cmd(cmd):
    """real Command -> abstract op dict (raises Unrecoverable)"""
    from strawberryfields.parameters import par_evaluate, par_is_symbolic
    op = cmd.op
    name = type(op).__name__
    if name not in KINDS:
        raise Unrecoverable("operation " + name)
    kinds = KINDS[name]
    if name == "Fouriergate":          # its meaning is what the code applies: a fixed rotation, whatever p holds
        ps = []
    elif name == "Kgate":
        k = float(par_evaluate(op.p[0]))
        if abs(k - round(k)) > 1e-9:
            raise Unrecoverable("Kerr parameter %r" % k)
        ps = [[int(round(k)), 1]]
    elif name == "MeasureHomodyne":
        # <<angle, select, has_select>> (the form the specifications use)
        sel = getattr(op, "select", None)
        ps = [angle(float(par_evaluate(op.p[0]))), recover("real", 0.0 if sel is None else float(sel)), [0, 1] if sel is None else [1, 1]]
    elif name == "MeasureHeterodyne":
        raise Unrecoverable("measurement")
    elif name == "MSgate":
        if len(op.p) != 5 or not bool(op.p[4]):
            raise Unrecoverable("single-shot MSgate")
        r = float(par_evaluate(op.p[0]))
        if r < 0:
            raise Unrecoverable("negative measurement-based squeezing")
        ps = [recover("sq", op.p[0]), angle(float(par_evaluate(op.p[1])) / 2), recover("sq", op.p[2]), recover("real", op.p[3])]
    else:
        if len(op.p) != len(kinds):
            raise Unrecoverable("arity of " + name)
        for x in op.p:
            if par_is_symbolic(x):
                raise Unrecoverable("symbolic parameter")
        ps = [recover(k, x) for k, x in zip(kinds, op.p)]
    return {"name": name, "p": ps, "modes": [r.ind for r in cmd.reg], "dag": bool(getattr(op, "dagger", False))}


def project_circuit(circuit):
    return [project_cmd(c) for c in circuit]


def digest(prog):
    """structural digest of a program: command/operation object identities, parameters, flags, registers"""
    out = []
    for c in prog.circuit:
        out.append((id(c), id(c.op), type(c.op).__name__, tuple(repr(x) for x in c.op.p), bool(getattr(c.op, "dagger", False)),
                    repr(getattr(c.op, "select", None)), tuple(r.ind for r in c.reg)))
    regs = tuple((i, bool(r.active)) for i, r in sorted(prog.reg_refs.items()))
    opts = (repr(sorted(getattr(prog, "run_options", {}).items())), repr(sorted(getattr(prog, "backend_options", {}).items())),
            repr(getattr(prog, "target", None)))
    return (tuple(out), regs, tuple(sorted(prog.unused_indices)) if hasattr(prog, "unused_indices") else (), opts)
