"""C06: measurements sample the Born distribution and condition correctly.  TLC (MC_Meas.tla) gives, for every
pre-measurement lattice state, the exact Born law and conditional state of every dyne measurement and the exact reduced
state of every ordered tuple of measured modes.  The harness (i) post-selects and compares conditional states on every
simulator, (ii) intercepts the random generators: the distribution handed to the generator must be the Born law, and the
forced outcome must lead to the spec's conditional state, stored value and sample, (iii) checks the sample layout for
every ordered tuple of measured modes and several shots values, (iv) Fock photon counting: probability vector, conditional
state and reset against the harness' own projection of the pre-measurement state."""
import itertools
import json
import math
import traceback

import numpy as np

from . import common, lattice
from .lattice import short

_CFG = {}
EPS2 = 0.0002 ** 2


def _ang(a):
    from . import sfx
    return sfx.to_float("angle", a)


def _f(x):
    from . import sfx
    return float(sfx.fr(x))


def _proj(st, cfg, cutoff):
    from . import sfx
    p = sfx.project_state(st, cfg, cutoff)
    for k in ("mu_c", "V_c", "weights"):
        p.pop(k, None)
    return p


class Patch:
    """context manager replacing attributes and restoring them"""

    def __init__(self, pairs):
        self.pairs = pairs
        self.old = []

    def __enter__(self):
        for obj, name, new in self.pairs:
            self.old.append((obj, name, getattr(obj, name)))
            setattr(obj, name, new)

    def __exit__(self, *a):
        for obj, name, old in self.old:
            setattr(obj, name, old)


def _dyne_cases(item, cfg, cutoff, n, out):
    import strawberryfields as sf
    from strawberryfields import ops
    from . import sfx
    hist = item["hist"]
    modes = item["st"]["modes"]

    def run(extra_cmds, patch=None):
        prog = sf.Program(n)
        with prog.context as q:
            regs = sfx.apply_hist(q, hist)
            for op, ms in extra_cmds:
                op | tuple(regs[m] for m in ms)
        eng = sfx.engine(cfg, cutoff)
        if patch:
            with Patch(patch):
                res = eng.run(prog)
        else:
            res = eng.run(prog)
        return prog, res
    sl, nsl = item.get("_slice", (0, 1))
    for ci, c in enumerate(item["hom"]):
        if ci % nsl != sl:
            continue
        m, phi, x0 = c["m"], _ang(c["a"]), _f(c["x"])
        rec = {"kind": "hom", "ci": ci, "m": m}
        try:
            prog, res = run([(ops.MeasureHomodyne(phi, select=x0), [m])])
            rec["sel_proj"] = _proj(res.state, cfg, cutoff)
            rec["sel_sample"] = float(np.ravel(res.samples)[0])
            rec["sel_val"] = float(np.ravel(prog.reg_refs[m].val)[0])
        except Exception as e:  # noqa
            rec["sel_error"] = "%s: %s" % (type(e).__name__, str(e)[:150])
        # intercepted, not post-selected
        if ci % 3 == 0 or cfg == "gaussian":
            calls = []
            try:
                if cfg == "gaussian":
                    def mvn(mean, cov, size=None, **kw):
                        calls.append((np.array(mean, dtype=float), np.array(cov, dtype=float)))
                        return np.array([[x0, float(mean[1])]] * (size or 1))
                    patch = [(np.random, "multivariate_normal", mvn)]
                elif cfg == "bosonic":
                    def mvn(mean, cov, size=None, **kw):
                        calls.append((np.real(np.array(mean)).astype(float), np.real(np.array(cov)).astype(float)))
                        return np.array([x0])
                    patch = [(np.random, "multivariate_normal", mvn), (np.random, "random", lambda size=None: np.zeros(size or 1)),
                             (np.random, "choice", lambda a, size=None, p=None, **kw: (np.array([np.ravel(a)[0]]) if size else np.ravel(a)[0]))]
                else:
                    def multinomial(nn, probs, size=None):
                        grid = np.linspace(-10, 10, len(probs))
                        calls.append((float(np.sum(probs * grid)), float(np.sum(probs * grid ** 2) - np.sum(probs * grid) ** 2), grid))
                        h = np.zeros(len(probs), dtype=int)
                        h[int(np.argmin(np.abs(grid - x0)))] = 1
                        return h
                    patch = [(np.random, "multinomial", multinomial)]
                prog, res = run([(ops.MeasureHomodyne(phi), [m])], patch)
                rec["rng_proj"] = _proj(res.state, cfg, cutoff)
                rec["rng_sample"] = float(np.ravel(res.samples)[0])
                rec["rng_val"] = float(np.ravel(prog.reg_refs[m].val)[0])
                if calls:
                    if cfg == "fock":
                        rec["born"] = [calls[0][0], calls[0][1]]
                    elif cfg == "gaussian":
                        rec["born"] = [float(calls[0][0][0]), float(calls[0][1][0, 0]) - EPS2]
                    else:
                        rec["born"] = [float(np.ravel(calls[0][0])[0]), float(np.ravel(calls[0][1])[0])]
                rec["ncalls"] = len(calls)
            except Exception as e:  # noqa
                rec["rng_error"] = "%s: %s" % (type(e).__name__, str(e)[:150])
        out.append(rec)
    if cfg in ("gaussian", "bosonic"):
        for ci, c in enumerate(item["het"]):
            if ci % nsl != sl:
                continue
            m = c["m"]
            al = complex(_f(c["al"][0]), _f(c["al"][1]))
            rec = {"kind": "het", "ci": ci, "m": m}
            try:
                prog, res = run([(ops.MeasureHeterodyne(select=al), [m])])
                rec["sel_proj"] = _proj(res.state, cfg, cutoff)
                rec["sel_sample"] = complex(np.ravel(res.samples)[0])
            except Exception as e:  # noqa
                rec["sel_error"] = "%s: %s" % (type(e).__name__, str(e)[:150])
            if cfg == "gaussian":
                calls = []
                try:
                    def mvn(mean, cov, size=None, **kw):
                        calls.append((np.array(mean, dtype=float), np.array(cov, dtype=float)))
                        return np.array([[2 * al.real, 2 * al.imag]] * (size or 1))
                    prog, res = run([(ops.MeasureHeterodyne(), [m])], [(np.random, "multivariate_normal", mvn)])
                    rec["rng_proj"] = _proj(res.state, cfg, cutoff)
                    rec["rng_sample"] = complex(np.ravel(res.samples)[0])
                    if calls:
                        rec["born_mean"] = calls[0][0].tolist()
                        rec["born_cov"] = calls[0][1].tolist()
                except Exception as e:  # noqa
                    rec["rng_error"] = "%s: %s" % (type(e).__name__, str(e)[:150])
            out.append(rec)


def _layout_cases(item, cfg, cutoff, n, out):
    import strawberryfields as sf
    from strawberryfields import ops
    from . import sfx
    hist = item["hist"]
    import strawberryfields.backends.gaussianbackend.backend as gb
    sl, nsl = item.get("_slice", (0, 1))
    for ti, t in enumerate(item["tuples"]):
        if ti % nsl != sl:
            continue
        ms = t["ms"]
        vals = {m: (j + 1) / 4.0 for j, m in enumerate(ms)}
        rec = {"kind": "layout", "ti": ti, "ms": ms}
        try:
            prog = sf.Program(n)
            with prog.context as q:
                regs = sfx.apply_hist(q, hist)
                for m in ms:
                    ops.MeasureHomodyne(0.3 * (m + 1), select=vals[m]) | regs[m]
            res = sfx.engine(cfg, cutoff).run(prog)
            rec["hom_samples"] = np.real(np.asarray(res.samples)).tolist()
            rec["hom_dict"] = {int(k): [float(np.real(np.ravel(x)[0])) for x in v] for k, v in res.samples_dict.items()}
            rec["hom_vals"] = {int(r.ind): (None if r.val is None else float(np.real(np.ravel(r.val)[0]))) for r in prog.register}
        except Exception as e:  # noqa
            rec["hom_error"] = "%s: %s" % (type(e).__name__, str(e)[:150])
        if cfg == "gaussian":
            for shots in (1, 3):
                for kindname, opcls, attr in (("fock", ops.MeasureFock, "hafnian_sample_state"), ("threshold", ops.MeasureThreshold, "torontonian_sample_state")):
                    calls = []

                    def sampler(*a, **kw):
                        calls.append((a, kw))
                        k = len(ms)
                        if kindname == "fock":
                            return np.array([[(j + 1) + 10 * s for j in range(k)] for s in range(shots)])
                        return np.array([[(j + s) % 2 for j in range(k)] for s in range(shots)])
                    key = "%s%d" % (kindname, shots)
                    try:
                        prog = sf.Program(n)
                        with prog.context as q:
                            regs = sfx.apply_hist(q, hist)
                            opcls() | tuple(regs[m] for m in ms)
                        import warnings
                        with warnings.catch_warnings():
                            warnings.simplefilter("ignore")
                            with Patch([(gb, attr, sampler)]):
                                res = sfx.engine(cfg, cutoff).run(prog, shots=shots)
                        rec[key + "_samples"] = np.asarray(res.samples).tolist()
                        a, kw = calls[0]
                        if kindname == "fock":
                            cov = np.asarray(a[0], dtype=float)
                            mean = kw.get("mean")
                            rec[key + "_args"] = [None if mean is None else np.asarray(mean, dtype=float).tolist(), cov.tolist(), int(a[1])]
                        else:
                            rec[key + "_args"] = [np.asarray(kw["mu"], dtype=float).tolist(), np.asarray(kw["cov"], dtype=float).tolist(), int(kw["samples"])]
                    except Exception as e:  # noqa
                        rec[key + "_error"] = "%s: %s" % (type(e).__name__, str(e)[:150])
                    if shots == 1:
                        # post-selection: honoured (outcome = the selected value) or refused, never silently ignored
                        sel = [1] * len(ms)
                        try:
                            prog = sf.Program(n)
                            with prog.context as q:
                                regs = sfx.apply_hist(q, hist)
                                opcls(select=sel) | tuple(regs[m] for m in ms)
                            with warnings.catch_warnings():
                                warnings.simplefilter("ignore")
                                with Patch([(gb, attr, lambda *a, **kw: np.zeros((1, len(ms)), dtype=int))]):
                                    res = sfx.engine(cfg, cutoff).run(prog)
                            rec[kindname + "_select"] = {"select": sel, "samples": np.asarray(res.samples).tolist()}
                        except NotImplementedError:
                            rec[kindname + "_select"] = {"select": sel, "refused": True}
                        except Exception as e:  # noqa
                            rec[kindname + "_select"] = {"select": sel, "error": "%s: %s" % (type(e).__name__, str(e)[:150])}
        out.append(rec)


def _own_reduce(rho, n, keep):
    """dm tensor with axes (i0, j0, i1, j1, ...) -> same layout on the kept modes (own partial trace)"""
    L = "abcdefgh"
    U = "ABCDEFGH"
    sub = "".join(L[m] + (U[m] if m in keep else L[m]) for m in range(n))
    outs = "".join(L[m] + U[m] for m in keep)
    return np.einsum(sub + "->" + outs, rho)


def _fock_count_cases(item, cfg, cutoff, n, out):
    import strawberryfields as sf
    from strawberryfields import ops
    from . import sfx
    hist = item["hist"]
    prog0 = sfx.build_program(n, hist)
    st0 = sfx.engine(cfg, cutoff).run(prog0).state
    D = st0.cutoff_dim
    rho0 = np.asarray(st0.dm())
    sl, nsl = item.get("_slice", (0, 1))
    for ti, t in enumerate(item["tuples"]):
        if ti % nsl != sl:
            continue
        ms = t["ms"]
        rec = {"kind": "count", "ti": ti, "ms": ms, "D": D, "trace0": float(np.real(st0.trace()))}
        try:
            asc = sorted(ms)
            red = _own_reduce(rho0, n, asc)
            k = len(ms)
            diag = np.real(np.einsum(_diag_subs(k), red)).reshape(-1)
            calls = []

            def choice(a, size=None, replace=True, p=None):
                calls.append(np.array(p, dtype=float))
                cand = [(pp, i) for i, pp in enumerate(p) if pp > 1e-7 and len(set(np.unravel_index(i, [D] * k))) > 1]
                if not cand:
                    cand = [(pp, i) for i, pp in enumerate(p)]
                cand.sort(reverse=True)
                return cand[min(1, len(cand) - 1)][1]          # the second most probable admissible joint outcome
            prog = sf.Program(n)
            with prog.context as q:
                for o in hist:
                    sfx.mk_op(o) | tuple(q[m] for m in o["modes"])
                ops.MeasureFock() | tuple(q[m] for m in ms)
            with Patch([(np.random, "choice", choice)]):
                res = sfx.engine(cfg, cutoff).run(prog)
            p = calls[0]
            idx = None
            cand = [(pp, i) for i, pp in enumerate(p) if pp > 1e-7 and len(set(np.unravel_index(i, [D] * k))) > 1] or [(pp, i) for i, pp in enumerate(p)]
            cand.sort(reverse=True)
            idx = cand[min(1, len(cand) - 1)][1]
            asc_outcome = list(np.unravel_index(idx, [D] * k))
            want = {m: int(asc_outcome[asc.index(m)]) for m in ms}
            rec["dist_err"] = float(np.max(np.abs(p / p.sum() - diag / diag.sum())))
            rec["prob_forced"] = float(p[idx])
            rec["samples"] = np.asarray(res.samples).tolist()
            rec["want_by_mode"] = {int(m): want[m] for m in ms}
            rec["vals"] = {int(r.ind): (None if r.val is None else int(np.ravel(r.val)[0])) for r in prog.register}
            # own conditional state of the unmeasured modes
            others = [m for m in range(n) if m not in ms]
            post = np.asarray(res.state.dm())
            idxs = []
            for m in range(n):
                idxs += [want[m], want[m]] if m in ms else [slice(None), slice(None)]
            cond = rho0[tuple(idxs)]
            if others:
                tr = np.real(np.einsum(_diag_subs(len(others)), cond).sum())
                cond = cond / tr
                mu_c, V_c, _, _ = sfx.fock_tensor_moments(cond, False, len(others), D)
                po = _own_reduce(post, n, others)
                mu_p, V_p, trp, _ = sfx.fock_tensor_moments(po, False, len(others), D)
                rec["cond_err"] = [float(np.max(np.abs(mu_c - mu_p))), float(np.max(np.abs(V_c - V_p)))]
            pm = _own_reduce(post, n, asc)
            rec["vac_pop"] = float(np.real(pm[tuple([0, 0] * k)]))
            rec["post_trace"] = float(np.real(res.state.trace()))
        except Exception as e:  # noqa
            rec["error"] = "%s: %s" % (type(e).__name__, str(e)[:200])
            rec["tb"] = traceback.format_exc()[-600:]
        out.append(rec)


def _diag_subs(k):
    L = "abcdefgh"
    return "".join(L[i] * 2 for i in range(k)) + "->" + "".join(L[i] for i in range(k))


def _run_one(job):
    item, sl, nsl = job
    item = dict(item, _slice=(sl, nsl))
    cfg, cutoff, n, parts = _CFG["cfg"], _CFG["cutoff"], _CFG["n"], _CFG["parts"]
    out = []
    try:
        if "dyne" in parts:
            _dyne_cases(item, cfg, cutoff, n, out)
        if "layout" in parts:
            _layout_cases(item, cfg, cutoff, n, out)
        if "count" in parts and cfg.startswith("fock"):
            _fock_count_cases(item, cfg, cutoff, n, out)
        return {"ok": True, "recs": out}
    except Exception as e:  # noqa
        return {"ok": False, "err": type(e).__name__, "msg": str(e)[:300], "tb": traceback.format_exc()[-1200:]}


def c06(chk):
    from . import sfx_cmp as sc
    tier = chk.tier
    chk.rule = ("Pre-measurement states: entangled/displaced/mixed lattice prefixes (+ one further operation in thorough). Per state: homodyne "
                "at 4 angles x 3 values on every mode and heterodyne at 3 values (gaussian, bosonic) post-selected -> conditional state, stored "
                "value, sample; the same measurements sampled with the generators intercepted -> Born mean/variance handed to the generator, "
                "forced outcome -> conditional state; layout of samples / samples_dict / RegRef.val for every ordered tuple of measured modes "
                "(homodyne; Gaussian MeasureFock and MeasureThreshold with shots 1 and 3 incl. sampler arguments vs the exact reduced state); "
                "Fock photon counting of every ordered tuple: probability vector, forced joint outcome, conditional state, reset. "
                "Non-trivial = every case (all states are entangled); distinct by (state, backend, case).")
    chk.assumptions = ["homodyne comparisons at 1e-5 (finite squeezing eps = 2e-4 is documented); Fock within truncation slack; the statistical "
                       "quality of the samplers themselves is not examined", "photon counting on the Gaussian simulator returns samples only "
                       "(state documented as not updated); bosonic rejects photon counting; Fock accepts shots=1 only"]
    plans = [(3, 1, "e3", [("gaussian", None, ("dyne", "layout")), ("bosonic", None, ("dyne", "layout"))]),
             (3, 0, "e3", [("fock", 7, ("count",))]),
             (3, 0, "p3", [("fock", 7, ("count",))]),          # a pure pre-measurement state: the simulator holds a ket
             (2, 0, "e2", [("fock", 11, ("dyne", "count")), ("fockmixed", 9, ("layout",)), ("gaussian", None, ("dyne", "layout")), ("bosonic", None, ("dyne",))]),
             (3, 0, "x3", [("gaussian", None, ("dyne", "layout")), ("fock", 8, ("layout",))])]
    if tier != "quick":
        plans = [(3, 1, "e3", [("gaussian", None, ("dyne", "layout")), ("bosonic", None, ("dyne", "layout"))]), (3, 0, "e3", [("fock", 8, ("dyne", "layout", "count"))]),
                 (2, 1, "e2", [("fock", 12, ("dyne", "count", "layout")), ("fockmixed", 10, ("dyne", "layout", "count")), ("gaussian", None, ("dyne", "layout")), ("bosonic", None, ("dyne",))]),
                 (3, 1, "x3", [("gaussian", None, ("dyne", "layout")), ("bosonic", None, ("dyne", "layout"))]), (3, 0, "x3", [("fock", 9, ("dyne", "layout"))]),
                 (3, 0, "p3", [("fock", 9, ("dyne", "count", "layout")), ("gaussian", None, ("dyne", "layout"))])]
    mix_items = []
    for (n, depth, prefix, cfgs) in plans:
        r = chk.tlc("MC_Meas", spec="SpecM", constants={"N": n, "Depth": depth, "AlphaId": "d", "PrefixId": prefix, "KNum": 1, "KDen": 1, "EMIT": True},
                    invariants=["MeasuredModeReset", "ConditionalPhysical", "HetPhysical", "BornVarPositive", "CovIndependentOfOutcome", "EmitMeas"])
        items = r.json
        if len(mix_items) < 4:
            mix_items += items[:2]
        for cfg, cutoff, parts in cfgs:
            sel = [it for it in items if lattice.supported(it["hist"], cfg)]
            _CFG.update(cfg=cfg, cutoff=cutoff, n=n, parts=parts)
            nsl = 12 if len(sel) < 8 else 2            # few pre-states: split their cases over the workers
            jobs = [(it, k, nsl) for it in sel for k in range(nsl)]
            res = common.pmap(_run_one, jobs, chunksize=1)
            for (it, _, _), o in zip(jobs, res):
                det0 = {"config": cfg, "cutoff": cutoff, "program": short(it["hist"])}
                if not o["ok"]:
                    chk.violation("UnexpectedError", {"backend": cfg, "error": o["err"]}, dict(det0, msg=o["msg"], tb=o["tb"]))
                    continue
                for rec in o["recs"]:
                    chk.traces += 1
                    chk.count(key=(cfg, lattice.hist_key(it["hist"]), rec["kind"], rec.get("ci", rec.get("ti"))), nontrivial=True)
                    judge(chk, sc, cfg, it, rec, det0)
            chk.sample({"config": cfg, "pre_state_program": short(sel[0]["hist"]), "hom_cases": len(sel[0]["hom"]), "tuples": [t["ms"] for t in sel[0]["tuples"]][:6]})
    cat_measurements(chk)
    bosonic_mixtures(chk, mix_items)
    chk.exhaustive = True


def _mixture_case(arg):
    """worker: homodyne of a classical mixture of two single-mode Gaussian states on the bosonic simulator with the generators
    intercepted: the component must be drawn with the mixture weights and the outcome from that component's Born law"""
    import strawberryfields as sf
    from strawberryfields import ops
    comps, w, ang, pick = arg
    try:
        means = np.array([[c["mu"][0], c["mu"][1]] for c in comps], dtype=float)
        covs = np.array([c["V"] for c in comps], dtype=float)
        prog = sf.Program(1)
        with prog.context as q:
            ops.Bosonic(np.array(w, dtype=float), means, covs) | q[0]
            ops.MeasureHomodyne(ang) | q[0]
        rec = {"choice": [], "normal": []}

        def choice(a, size=None, replace=True, p=None):
            rec["choice"].append([float(x) for x in np.asarray(p).ravel()])
            r = np.asarray(a)[pick] if np.ndim(a) else pick
            return np.array([r]) if size is not None else r

        def mvn(mean, cov, size=None, **kw):
            rec["normal"].append([[float(x) for x in np.ravel(mean)], [float(x) for x in np.ravel(cov)]])
            out = np.array(mean, dtype=float)            # the centre of the component: always accepted
            return out if size is None else np.tile(out, (size if np.ndim(size) == 0 else int(np.prod(size)), 1))
        with Patch([(np.random, "choice", choice), (np.random, "multivariate_normal", mvn)]):
            res = sf.Engine("bosonic").run(prog)
        rec["sample"] = float(np.ravel(res.samples)[0])
        rec["ok"] = True
        return rec
    except Exception as e:  # noqa
        return {"ok": False, "err": type(e).__name__, "msg": str(e)[:300], "tb": traceback.format_exc()[-800:]}


def bosonic_mixtures(chk, items):
    """classical mixtures (states with several Gaussian components of different covariance): the exact Born law of a mixture is the
    mixture of the components' Born laws, which MC_Meas computed for every reduced lattice state"""
    singles = []
    for it in items:
        for t in it["tuples"]:
            if len(t["ms"]) == 1:
                r = t["red"]
                singles.append({"mu": [_f(x) for x in r["mu"]], "V": [[_f(x) for x in row] for row in r["V"]]})
    singles = singles[:6]
    jobs = []
    for i in range(len(singles)):
        for j in range(len(singles)):
            if i == j or singles[i]["V"] == singles[j]["V"]:
                continue
            for w in ((0.25, 0.75), (0.5, 0.5)):
                for ang in (0.0, math.atan2(4, 3), math.pi / 2):
                    for pick in (0, 1):
                        jobs.append(([singles[i], singles[j]], w, ang, pick))
    jobs = jobs[:: max(1, len(jobs) // (120 if chk.tier == "quick" else 1200))]
    res = common.pmap(_mixture_case, jobs, chunksize=4)
    for (comps, w, ang, pick), o in zip(jobs, res):
        chk.traces += 1
        chk.count(key=("mixture", json.dumps([comps, w, ang, pick])), nontrivial=True)
        f = {"backend": "bosonic", "kind": "hom", "state": "mixture"}
        det = {"config": "bosonic", "components": comps, "weights": w, "angle": ang, "forced_component": pick}
        if not o["ok"]:
            chk.violation("UnexpectedError", dict(f, error=o["err"]), dict(det, msg=o["msg"], tb=o.get("tb")))
            continue
        if not o["choice"] or not o["normal"]:
            chk.violation("BornDistribution", f, dict(det, info="the generators were not consulted (%d / %d calls)" % (len(o["choice"]), len(o["normal"]))))
            continue
        p = o["choice"][0]
        if len(p) != 2 or max(abs(p[0] - w[0]), abs(p[1] - w[1])) > 1e-9:
            chk.violation("BornDistribution", f, dict(det, info="component probabilities %s, mixture weights %s" % (p, list(w))))
            continue
        c, s_ = math.cos(ang), math.sin(ang)
        k = comps[pick]
        bm = c * k["mu"][0] + s_ * k["mu"][1]
        bv = c * c * k["V"][0][0] + s_ * s_ * k["V"][1][1] + 2 * c * s_ * k["V"][0][1]
        gm, gc = o["normal"][0]
        if abs(gm[0] - bm) > 1e-6 * (1 + abs(bm)) or abs(gc[0] - bv) > 1e-3 * (1 + bv):
            chk.violation("BornDistribution", f, dict(det, info="component law N(%.6g, %.6g), Born law of the component N(%.6g, %.6g)" % (gm[0], gc[0], bm, bv)))
    chk.notes["bosonic_mixture_cases"] = len(jobs)


def cat_measurements(chk):
    """non-Gaussian pre-measurement states: a cat state (any parity) after one lattice operation, then a post-selected homodyne /
    heterodyne measurement of either mode (MC_Cat.tla with MeasMode = "final": exact component means, shared covariance and
    the exponents of the weight factors); the conditional state of the bosonic simulator is compared through its first and
    second moments"""
    from . import p_gauss
    r = chk.tlc("MC_Cat", constants={"Depth": 1, "ANum": 1, "ADen": 2 if chk.tier == "quick" else 1, "MeasMode": "final", "EMIT": True},
                invariants=["CovPhysical", "Paired", "MeasuredModeReset", "EmitInv"])
    items = r.json
    if chk.tier == "quick":
        items = [it for k, it in enumerate(items) if len(it["hist"]) == 2 or k % 3 == chk.seed % 3]
    par = p_gauss.CAT_PARITIES
    jobs = [(it, p, "bosonic", None) for it in items for p in par]
    res = common.pmap(p_gauss._cat_run, jobs, chunksize=4)
    worst = 0.0
    for (it, p, _, _), o in zip(jobs, res):
        chk.traces += 1
        chk.count(key=("catmeas", p, lattice.hist_key(it["hist"])), nontrivial=True)
        meas = it["hist"][-1]
        f = {"backend": "bosonic", "kind": "hom" if meas["name"] == "MeasureHomodyne" else "het", "state": "cat"}
        det = {"config": "bosonic", "program": "Catstate(%s, parity %s) ; %s" % (lattice.fmt_p(it["hist"][0]["p"]), p, short(it["hist"][1:]))}
        if not o["ok"]:
            chk.violation("UnexpectedError", dict(f, error=o["err"]), dict(det, msg=o["msg"]))
            continue
        orc = p_gauss.cat_oracle(it, p)
        if orc is None:
            chk.inconclusive += 1
            continue
        mean, cov, imag = orc
        gm, gV = np.array(o["proj"]["mu"]), np.array(o["proj"]["V"])
        d = float(max(np.max(np.abs(gm - mean)), np.max(np.abs(gV - cov))))
        worst = max(worst, d)
        if d > 2e-3 * (1 + float(np.max(np.abs(cov)))):
            chk.violation("ConditionalState", f, dict(det, diff=d, got_mu=np.round(gm, 5).tolist(), want_mu=np.round(mean, 5).tolist(),
                                                      got_V=np.round(gV, 5).tolist(), want_V=np.round(cov, 5).tolist()))
    chk.notes["cat_measurements"] = {"cases": len(jobs), "worst_moment_difference": worst}


def judge(chk, sc, cfg, it, rec, det0):
    f = {"backend": cfg, "kind": rec["kind"]}
    fock = cfg.startswith("fock")
    if rec["kind"] in ("hom", "het"):
        c = it[rec["kind"]][rec["ci"]]
        det = dict(det0, case={k: c[k] for k in c if k != "post"})
        want_val = float(sc.fr(c["x"])) if rec["kind"] == "hom" else complex(float(sc.fr(c["al"][0])), float(sc.fr(c["al"][1])))
        for tag in ("sel", "rng"):
            if tag + "_error" in rec:
                chk.violation("UnexpectedError", dict(f, via=tag), dict(det, msg=rec[tag + "_error"]))
                continue
            if tag + "_proj" not in rec:
                continue
            v, worst, info = sc.compare_state(c["post"], rec[tag + "_proj"], cfg, coarse=True)
            if v == "inconclusive":
                chk.inconclusive += 1
            elif v == "bad":
                chk.violation("ConditionalState", dict(f, via=tag), dict(det, info=info))
            tolv = 1e-9 if not (fock and tag == "rng") else 3e-4
            if abs(rec[tag + "_sample"] - want_val) > tolv:
                chk.violation("ReturnedSample", dict(f, via=tag), dict(det, got=str(rec[tag + "_sample"]), want=str(want_val)))
            if tag + "_val" in rec and abs(rec[tag + "_val"] - want_val) > tolv:
                chk.violation("StoredValue", dict(f, via=tag), dict(det, got=rec[tag + "_val"], want=str(want_val)))
        if "born" in rec:
            bm, bv = float(sc.fr(c["bmean"])), float(sc.fr(c["bvar"]))
            tol = 1e-7 if not fock else 2e-2
            if abs(rec["born"][0] - bm) > tol * (1 + abs(bm)) or abs(rec["born"][1] - bv) > tol * (1 + bv) * (1 if not fock else 3):
                chk.violation("BornDistribution", f, dict(det, got=rec["born"], want=[bm, bv]))
        elif rec["kind"] == "hom" and "rng_proj" in rec and rec.get("ncalls", 1) == 0:
            chk.violation("GeneratorNotUsed", f, det)
        if "born_mean" in rec:
            bm = [float(sc.fr(x)) for x in c["bmean"]]
            bc = [[float(sc.fr(x)) for x in r] for r in c["bcov"]]
            if np.max(np.abs(np.array(rec["born_mean"]) - bm)) > 1e-7 or np.max(np.abs(np.array(rec["born_cov"]) - bc)) > 1e-7:
                chk.violation("BornDistribution", f, dict(det, got=[rec["born_mean"], rec["born_cov"]], want=[bm, bc]))
    elif rec["kind"] == "layout":
        ms = rec["ms"]
        det = dict(det0, measured=ms)
        asc = sorted(ms)
        vals = {m: (j + 1) / 4.0 for j, m in enumerate(ms)}
        if "hom_error" in rec:
            chk.violation("UnexpectedError", dict(f, via="homodyne"), dict(det, msg=rec["hom_error"]))
        else:
            want = [[vals[m] for m in asc]]
            if np.shape(rec["hom_samples"]) != (1, len(ms)) or np.max(np.abs(np.array(rec["hom_samples"]) - want)) > 1e-9:
                chk.violation("SamplesLayout", dict(f, via="homodyne", tuple_len=len(ms)), dict(det, got=rec["hom_samples"], want=want))
            for m in ms:
                if abs(rec["hom_dict"].get(m, [float("nan")])[-1] - vals[m]) > 1e-9 or rec["hom_vals"].get(m) is None or abs(rec["hom_vals"][m] - vals[m]) > 1e-9:
                    chk.violation("SamplesByMode", dict(f, via="homodyne"), dict(det, samples_dict=rec["hom_dict"], vals=rec["hom_vals"], want=vals))
                    break
        t = it["tuples"][rec["ti"]]
        mu, V = sc.exact_arrays(t["red"])
        for key in [k for k in rec if k.endswith("_samples") and not k.startswith("hom")]:
            base = key[:-8]
            shots = int(base[-1])
            kindname = base[:-1]
            got = np.array(rec[key])
            order = [ms.index(m) for m in asc]
            if kindname == "fock":
                want = np.array([[(j + 1) + 10 * s for j in order] for s in range(shots)])
            else:
                want = np.array([[(j + s) % 2 for j in order] for s in range(shots)])
            if got.shape != want.shape or np.any(got != want):
                chk.violation("SamplesLayout", dict(f, via=kindname, shots=shots, tuple_len=len(ms)), dict(det, got=got.tolist(), want=want.tolist()))
            a = rec[base + "_args"]
            amean = np.zeros(len(mu)) if a[0] is None else np.array(a[0])
            if np.max(np.abs(amean - mu)) > 1e-9 or np.max(np.abs(np.array(a[1]) - V)) > 1e-9 or a[2] != shots:
                chk.violation("SamplerArguments", dict(f, via=kindname, tuple_len=len(ms)), dict(det, got_mean=a[0], want_mean=mu.tolist(), got_cov=a[1], want_cov=V.tolist()))
        for key in [k for k in rec if k.endswith("_error") and not k.startswith("hom")]:
            chk.violation("UnexpectedError", dict(f, via=key[:-6]), dict(det, msg=rec[key]))
        for key in [k for k in rec if k.endswith("_select")]:
            r = rec[key]
            chk.count(key=("select", cfg, key, json.dumps(it["hist"]), tuple(ms)), nontrivial=True)
            if "error" in r:
                chk.violation("UnexpectedError", dict(f, via=key), dict(det, msg=r["error"]))
            elif not r.get("refused") and r["samples"] != [r["select"]]:
                chk.violation("PostSelectionIgnored", dict(f, via=key[:-7], tuple_len=len(ms)), dict(det, select=r["select"], samples=r["samples"]))
    elif rec["kind"] == "count":
        ms = rec["ms"]
        det = dict(det0, measured=ms)
        if "error" in rec:
            chk.violation("UnexpectedError", dict(f, tuple_len=len(ms)), dict(det, msg=rec["error"], tb=rec.get("tb")))
            return
        delta = max(0.0, 1 - rec["trace0"])
        if delta > 1e-3:
            chk.inconclusive += 1
            return
        if rec["dist_err"] > 1e-6:
            chk.violation("BornDistribution", dict(f, tuple_len=len(ms)), dict(det, max_abs_diff=rec["dist_err"]))
        asc = sorted(ms)
        want = [[rec["want_by_mode"][str(m)] if str(m) in rec["want_by_mode"] else rec["want_by_mode"][m] for m in asc]]
        if rec["samples"] != want:
            chk.violation("SamplesLayout", dict(f, tuple_len=len(ms), ascending=ms == asc), dict(det, got=rec["samples"], want=want))
        for m in ms:
            wv = rec["want_by_mode"].get(str(m), rec["want_by_mode"].get(m))
            gv = rec["vals"].get(str(m), rec["vals"].get(m))
            if gv != wv:
                chk.violation("StoredValue", dict(f, tuple_len=len(ms)), dict(det, got=rec["vals"], want=rec["want_by_mode"]))
                break
        slack = 2 * rec["D"] * math.sqrt(delta / max(rec["prob_forced"], 1e-12)) + 1e-6
        if "cond_err" in rec and (rec["cond_err"][0] > slack or rec["cond_err"][1] > slack):
            chk.violation("ConditionalState", dict(f, tuple_len=len(ms), ascending=ms == asc), dict(det, err=rec["cond_err"], slack=slack))
        if abs(rec["vac_pop"] - 1) > 1e-9:
            chk.violation("MeasuredModeReset", dict(f, tuple_len=len(ms)), dict(det, vacuum_population=rec["vac_pop"]))
        # the conditional state is a normalised state (the vacuum population above is relative to it)
        if "post_trace" in rec and abs(rec["post_trace"] - 1) > 1e-6:
            chk.violation("ConditionalStateNormalised", dict(f, tuple_len=len(ms)), dict(det, trace=rec["post_trace"], outcome_probability=rec.get("prob_forced")))
