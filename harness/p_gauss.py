"""C01, C05, C07: lattice replay of MC_Gauss behaviours on the four simulator configurations."""
import json
import math
from fractions import Fraction

import numpy as np

from . import common, lattice
from .lattice import short

PASSIVE = {"Rgate", "Fouriergate", "BSgate", "MZgate"}
UNITARY = PASSIVE | {"Sgate", "Pgate", "S2gate", "CXgate", "CZgate", "Dgate", "Xgate", "Zgate"}
PREPS = {"Vacuum", "Coherent", "Squeezed", "DisplacedSqueezed", "Thermal"}
TWO = {"BSgate", "MZgate", "S2gate", "CXgate", "CZgate"}

DESIGN_INV = ("Physical",)
DESIGN_PROPS = ("PassiveKeepsPhotons", "LossNoGain", "TargetsOnly", "PrepUncorrelated")


def plans(tier):
    """(n, depth, alphabet, prefix, configs[(cfg, cutoff)]) per TLC model instance"""
    if tier == "quick":
        return [
            (3, 1, "g", "e3", [("gaussian", None), ("bosonic", None)]),
            (3, 2, "q", "e3", [("gaussian", None), ("bosonic", None)]),
            (2, 1, "q", "e2", [("fockmixed", 9), ("fock", 11)]),
            (3, 1, "q", "p3", [("fock", 8), ("fockmixed", 5)]),
            (4, 1, "q", "x4", [("gaussian", None), ("bosonic", None), ("fock", 6)]),
            (3, 1, "q", "x3", [("fockmixed", 7)]),
        ]
    return [
        (3, 2, "g", "e3", [("gaussian", None), ("bosonic", None)]),
        (3, 2, "q", "p3", [("gaussian", None), ("bosonic", None)]),
        (2, 2, "g", "e2", [("gaussian", None), ("bosonic", None)]),
        (2, 2, "q", "e2", [("fock", 10), ("fock", 13), ("fockmixed", 9)]),
        (3, 1, "q", "e3", [("fock", 8), ("fockmixed", 7)]),
        (3, 1, "q", "p3", [("fock", 10), ("fockmixed", 7)]),
        (2, 3, "d", "e2", [("gaussian", None), ("bosonic", None), ("fock", 10), ("fockmixed", 8)]),
        (3, 3, "d", "vac", [("gaussian", None), ("bosonic", None)]),
        (4, 1, "q", "e4", [("gaussian", None), ("bosonic", None)]),
    ]


def features(cfg, hist, nprefix):
    last = hist[-1] if len(hist) > nprefix else None
    f = {"backend": cfg}
    if last:
        f["op"] = last["name"]
        f["dag"] = bool(last.get("dag"))
        if len(last["modes"]) == 2:
            f["descending"] = last["modes"][0] > last["modes"][1]
        f["first_param_zero"] = bool(last.get("p")) and last["p"][0] in ([0, 1], [[1, 1], [0, 1]])
    return f


def run_models(chk, tier, want):
    """Generate behaviours, replay them, call want(cfg, cutoff, item, res, parent_res, nprefix) for each."""
    for (n, depth, alpha, prefix, cfgs) in plans(tier):
        items = lattice.generate(chk, n, depth, alpha, prefix, invariants=DESIGN_INV, properties=DESIGN_PROPS)
        nprefix = min(len(it["hist"]) for it in items)
        index = {lattice.hist_key(it["hist"]): i for i, it in enumerate(items)}
        for cfg, cutoff in cfgs:
            sel = [it for it in items if lattice.supported(it["hist"], cfg)]
            res = lattice.replay(sel, cfg, cutoff, n)
            pos = {lattice.hist_key(it["hist"]): j for j, it in enumerate(sel)}
            for it, r in zip(sel, res):
                par = None
                if len(it["hist"]) > nprefix:
                    j = pos.get(lattice.hist_key(it["hist"][:-1]))
                    par = (sel[j], res[j]) if j is not None else None
                want(cfg, cutoff, it, r, par, nprefix)
                chk.traces += 1
                nontriv = len(it["hist"]) > nprefix
                chk.count(key=(cfg, cutoff, lattice.hist_key(it["hist"])), nontrivial=nontriv)
            if sel:
                chk.sample({"config": cfg, "cutoff": cutoff, "program": short(sel[len(sel) // 2]["hist"]),
                            "exact_mean": sel[len(sel) // 2]["st"]["mu"]})


def unexpected(chk, cfg, cutoff, it, r, nprefix, prop):
    f = features(cfg, it["hist"], nprefix)
    f["error"] = r["err"]
    chk.violation("UnexpectedError", f, {"config": cfg, "cutoff": cutoff, "program": short(it["hist"]), "hist": it["hist"],
                                         "error": r["err"], "msg": r["msg"]})


# ---- cat states: linear combinations of Gaussians with symbolic weights (MC_Cat.tla) ------------------------------------
CAT_PARITIES = [0.0, 1.0, 0.5, 0.3, 1.5]
_CATCFG = {}


def cat_oracle(item, p):
    """first and second moments of the cat-state program from TLC's exact component means / covariance and the weights"""
    import cmath
    from fractions import Fraction
    fr = lambda x: float(Fraction(int(x[0]), int(x[1])))
    a = fr(item["amp"])
    c = cmath.exp(-2 * a * a - 1j * math.pi * p)
    norm = 1.0 / (2 * (1 + math.exp(-2 * a * a) * math.cos(math.pi * p)))
    w = [norm, norm, norm * c, norm * c.conjugate()]
    if any(x != [0, 1] for e in item.get("lw", []) for x in e):
        # a post-selected measurement multiplied every weight by its component's Gaussian density at the outcome
        w = [wk * cmath.exp(complex(fr(e[0]), fr(e[1]))) for wk, e in zip(w, item["lw"])]
        tot = sum(w)
        if abs(tot) < 1e-3 * sum(abs(wk) for wk in w):
            return None                 # an outcome of (nearly) zero probability density: conditioning on it is ill-defined
        w = [wk / tot for wk in w]
    mus = [np.array([fr(x) for x in item["re"][k]]) + 1j * np.array([fr(x) for x in item["im"][k]]) for k in range(4)]
    V = np.array([[fr(x) for x in r] for r in item["V"]])
    mean = sum(wk * mk for wk, mk in zip(w, mus))
    m2 = sum(wk * (V + np.outer(mk, mk)) for wk, mk in zip(w, mus))
    cov = m2 - np.outer(mean, mean)
    return np.real(mean), np.real(cov), float(max(np.max(np.abs(np.imag(mean))), np.max(np.abs(np.imag(cov)))))


def _cat_run(arg):
    import strawberryfields as sf
    from strawberryfields import ops
    from . import sfx
    item, p, cfg, cutoff = arg
    try:
        prog = sf.Program(2)
        cat = item["hist"][0]
        with prog.context as q:
            ops.Catstate(float(sfx.fr(cat["p"][0])), sfx.to_float("angle", cat["p"][1]), p) | q[0]
            for o in item["hist"][1:]:
                sfx.mk_op(o) | tuple(q[m] for m in o["modes"])
        st = sfx.engine(cfg, cutoff).run(prog).state
        proj = sfx.project_state(st, cfg, cutoff)
        for k in ("mu_c", "V_c", "weights"):
            proj.pop(k, None)
        return {"ok": True, "proj": proj}
    except Exception as e:  # noqa
        return {"ok": False, "err": type(e).__name__, "msg": str(e)[:200]}


def cat_programs(chk, judge):
    """generate cat-state programs, run them on the bosonic and Fock simulators, call judge(cfg, item, p, oracle, result)"""
    depth = 1 if chk.tier == "quick" else 2
    for (an, ad, cut) in ((1, 2, 14), (1, 1, 22)) if chk.tier != "quick" else ((1, 2, 12),):
        r = chk.tlc("MC_Cat", constants={"Depth": depth, "ANum": an, "ADen": ad, "MeasMode": "none", "EMIT": True}, invariants=["CovPhysical", "Paired", "EmitInv"])
        items = r.json
        for cfg, cutoff in (("bosonic", None), ("fock", cut)):
            sel = items if cfg == "bosonic" or chk.tier != "quick" else items[chk.seed % 2::2]
            jobs = [(it, p, cfg, cutoff) for it in sel for p in CAT_PARITIES]
            res = common.pmap(_cat_run, jobs, chunksize=4)
            for (it, p, _, _), o in zip(jobs, res):
                chk.traces += 1
                chk.count(key=("cat", cfg, p, lattice.hist_key(it["hist"])), nontrivial=True)
                judge(cfg, cutoff, it, p, cat_oracle(it, p), o)
        chk.sample({"cat_state_program": short(items[len(items) // 2]["hist"][1:]), "amplitude": "%d/%d" % (an, ad), "parities": CAT_PARITIES})


def _fockloss_run(arg):
    import strawberryfields as sf
    from strawberryfields import ops
    from . import sfx
    item, D, pure = arg
    try:
        prog = sf.Program(2)
        with prog.context as q:
            ops.Fock(item["n0"]) | q[0]
            ops.Sgate(0.1) | q[1]                      # a spectator, so that the tensor has more than one axis
            for T in item["T"]:
                ops.LossChannel(float(sfx.fr(T))) | q[0]
        st = sf.Engine("fock", backend_options={"cutoff_dim": D, "pure": pure}).run(prog).state
        rho = np.asarray(st.reduced_dm(0))
        return {"ok": True, "diag": np.real(np.diag(rho)).tolist(), "trace0": float(np.real(np.trace(rho)))}
    except Exception as e:  # noqa
        return {"ok": False, "err": type(e).__name__, "msg": str(e)[:200]}


def fock_loss(chk, clause_prefix):
    """number states up to the top level of the truncated space under loss: exact binomial thinning (MC_FockLoss.tla)"""
    D = 5 if chk.tier == "quick" else 7
    r = chk.tlc("MC_FockLoss", constants={"D": D, "Depth": 2, "EMIT": True}, invariants=["TracePreserved", "MeanScales", "EmitInv"])
    jobs = [(it, D, pure) for it in r.json for pure in (True, False)]
    res = common.pmap(_fockloss_run, jobs, chunksize=2)
    for (it, _, pure), o in zip(jobs, res):
        chk.traces += 1
        chk.count(key=("fockloss", it["n0"], json.dumps(it["T"]), pure), nontrivial=bool(it["T"]))
        f = {"backend": "fock" if pure else "fockmixed", "state": "number", "top_level": it["n0"] == D - 1, "op": "LossChannel"}
        det = {"program": "Fock(%d) ; %s" % (it["n0"], " ; ".join("LossChannel(%s)" % lattice.fmt_p([t])[1:-1] for t in it["T"])), "cutoff": D}
        if not o["ok"]:
            chk.violation("UnexpectedError", dict(f, error=o["err"]), dict(det, msg=o["msg"]))
            continue
        want = [float(Fraction(int(x[0]), int(x[1]))) for x in it["dist"]]
        # the spectator squeezer loses a little norm by truncation; compare the conditional distribution of mode 0
        tr = o["trace0"]
        got = [x / tr for x in o["diag"]]
        if max(abs(a - b) for a, b in zip(got, want)) > 1e-9:
            chk.violation(clause_prefix, f, dict(det, got=got, want=want))
        elif tr < 1 - 1e-6:      # (the spectator's squeezing of 0.1 costs < 1e-9 of norm at these cutoffs)
            chk.violation("TraceLostWithoutTruncation", f, dict(det, trace=tr))
    chk.sample({"number_state_program": "Fock(n) ; LossChannel(T)...", "cutoff": D, "cases": len(jobs)})


def cat_features(cfg, it, p):
    return {"backend": cfg, "state": "cat", "parity_integer": float(p).is_integer(), "op": it["hist"][-1]["name"] if len(it["hist"]) > 1 else "Catstate"}


# ---- C01 ----------------------------------------------------------------------------------------------
def c01(chk):
    from . import sfx_cmp as sc
    chk.rule = ("TLC enumerates every operation sequence of the stated depth over the lattice alphabet (all ordered target "
                "choices) after an entangling prefix; each reached (history, exact state) is replayed on each simulator "
                "configuration and all first/second moments compared with the exact state. Non-trivial = at least one "
                "operation after the prefix; distinct by (configuration, history).")
    chk.assumptions = ["lattice parameters (rational circle points, rational e^r, rational sqrt(T)); Fock slack "
                       "5*sqrt(delta)+1e-6 / 2*D*sqrt(delta)+1e-6 with delta the measured trace deficit; delta>1e-3 inconclusive",
                       "trusted: TLC, spec/overrides/Rat.java (BigInteger), numpy, harness ladder operators"]

    def want(cfg, cutoff, it, r, par, nprefix):
        if not r["ok"]:
            return unexpected(chk, cfg, cutoff, it, r, nprefix, "C01")
        verdict, worst, info = sc.compare_state(it["st"], r["proj"], cfg)
        if verdict == "inconclusive":
            chk.inconclusive += 1
        elif verdict == "bad":
            # attribute to the last operation only if the parent prefix agreed (otherwise the parent reports it)
            if par is not None and par[1]["ok"] and sc.compare_state(par[0]["st"], par[1]["proj"], cfg)[0] == "bad":
                return
            chk.violation("StateMatchesSpec", features(cfg, it["hist"], nprefix),
                          {"config": cfg, "cutoff": cutoff, "program": short(it["hist"]), "hist": it["hist"], "info": info,
                           "exact": it["st"]})
    run_models(chk, chk.tier, want)

    def judge(cfg, cutoff, it, p, oracle, o):
        mean, cov, imag = oracle
        f = cat_features(cfg, it, p)
        det = {"config": cfg, "cutoff": cutoff, "program": "Catstate(a=%s, p=%s) ; %s" % (lattice.fmt_p([it["amp"]]), p, short(it["hist"][1:]))}
        if not o["ok"]:
            chk.violation("UnexpectedError", dict(f, error=o["err"]), dict(det, msg=o["msg"]))
            return
        pr = o["proj"]
        dmu, dV = float(np.max(np.abs(pr["mu"] - mean))), float(np.max(np.abs(pr["V"] - cov)))
        if cfg == "bosonic":
            if dmu > 1e-8 or dV > 1e-8:
                chk.violation("StateMatchesSpec", f, dict(det, info="dmu=%.3g dV=%.3g" % (dmu, dV)))
        else:
            delta = max(0.0, 1 - pr["trace"])
            if delta > 1e-3:
                chk.inconclusive += 1
            elif dmu > 5 * delta ** 0.5 + 1e-6 or dV > 2 * pr["D"] * delta ** 0.5 + 1e-6:
                chk.violation("StateMatchesSpec", f, dict(det, info="dmu=%.3g dV=%.3g delta=%.3g" % (dmu, dV, delta)))
    cat_programs(chk, judge)
    fock_loss(chk, "NumberStateUnderLoss")


# ---- C05 ----------------------------------------------------------------------------------------------
def c05(chk):
    from . import sfx_cmp as sc
    chk.rule = ("Same behaviour set as C01; predicate: for the last operation of each history, the simulator's reduced "
                "moments of every non-target mode (marginals and cross-correlations among spectators) are unchanged with "
                "respect to the run of the history without that operation (code vs code), and for preparations the target "
                "block equals the spec's prepared state and its correlations with the rest vanish. Non-trivial = history "
                "with >= 1 operation after an entangling prefix.")
    chk.assumptions = ["prior states are the entangled/displaced/mixed prefixes of MC_Gauss; Fock slack from measured trace deficit",
                       "TargetsOnly and PrepUncorrelated are also TLC-checked on the model (action properties)"]

    def want(cfg, cutoff, it, r, par, nprefix):
        if not r["ok"] or par is None or not par[1]["ok"]:
            return
        last = it["hist"][-1]
        modes = it["st"]["modes"]
        n = len(modes)
        tpos = [modes.index(m) for m in last["modes"]]
        others = [i for i in range(n) if i not in tpos]
        idx = others + [i + n for i in others]
        a, b = r["proj"], par[1]["proj"]
        if cfg.startswith("fock"):
            delta = max(0.0, 1 - a["trace"], 1 - b["trace"])
            if delta > 1e-3:
                chk.inconclusive += 1
                return
            s1, s2 = 5 * delta ** 0.5 + 1e-6, 2 * a["D"] * delta ** 0.5 + 1e-6
        else:
            s1 = s2 = 1e-9 * (1 + float(np.max(np.abs(b["V"]))) + float(np.max(np.abs(b["mu"]))))
        if idx:
            dmu = float(np.max(np.abs(a["mu"][idx] - b["mu"][idx])))
            dV = float(np.max(np.abs(a["V"][np.ix_(idx, idx)] - b["V"][np.ix_(idx, idx)])))
            if dmu > s1 or dV > s2:
                chk.violation("TargetsOnly", features(cfg, it["hist"], nprefix),
                              {"config": cfg, "cutoff": cutoff, "program": short(it["hist"]), "hist": it["hist"],
                               "info": "spectator moments changed: dmu=%.3g dV=%.3g (slack %.3g/%.3g)" % (dmu, dV, s1, s2)})
                return
        if last["name"] in PREPS:
            tidx = tpos + [i + n for i in tpos]
            mu, V = sc.exact_arrays(it["st"])
            cross = float(np.max(np.abs(a["V"][np.ix_(tidx, idx)]))) if idx else 0.0
            dblock = max(float(np.max(np.abs(a["V"][np.ix_(tidx, tidx)] - V[np.ix_(tidx, tidx)]))),
                         float(np.max(np.abs(a["mu"][tidx] - mu[tidx]))))
            if cross > s2 or dblock > s2:
                chk.violation("PrepPostState", features(cfg, it["hist"], nprefix),
                              {"config": cfg, "cutoff": cutoff, "program": short(it["hist"]), "hist": it["hist"],
                               "info": "prepared block off by %.3g, residual correlation %.3g (slack %.3g)" % (dblock, cross, s2)})
    run_models(chk, chk.tier, want)
    # direction B: arbitrary float parameters, relational laws judged by TLC on quantised observations
    from . import p_rel
    p_rel.float_programs(chk, {"TargetsOnly", "PrepUncorrelated"})


# ---- C07 ----------------------------------------------------------------------------------------------
def c07(chk):
    from . import sfx_cmp as sc
    chk.rule = ("Same behaviour set as C01; predicates on every returned state: covariance symmetric and V + i*Omega >= 0, "
                "bosonic weights sum to one and moments real, Fock trace <= 1 and Hermitian (+ PSD on <= 2 modes); per last "
                "operation: unitary => purity unchanged, passive => total mean photon number unchanged, loss => not increased "
                "(code vs code on the parent history), Fock trace deficit only where the exact state has tail mass. "
                "The same laws are TLC-checked on the kernel (Physical, PassiveKeepsPhotons, LossNoGain; UnitaryKeepsPurity "
                "and GlobalUncertainty on the 2-mode instance).")
    chk.assumptions = ["Fock conservation laws are compared within the truncation slack derived from the measured trace deficit"]

    def purity(proj, cfg):
        V = proj["V"]
        return 1.0 / np.sqrt(max(np.linalg.det(V), 1e-300))

    def nbar(proj):
        n = proj["n"]
        V, mu = proj["V"], proj["mu"]
        return float(sum((V[i, i] + V[i + n, i + n] + mu[i] ** 2 + mu[i + n] ** 2) / 4 - 0.5 for i in range(n)))

    def want(cfg, cutoff, it, r, par, nprefix):
        if not r["ok"]:
            return
        f = features(cfg, it["hist"], nprefix)
        for clause, val in sc.physical_defects(r["proj"], cfg):
            chk.violation(clause, f, {"config": cfg, "cutoff": cutoff, "program": short(it["hist"]), "hist": it["hist"], "value": val})
        if par is None or not par[1]["ok"]:
            return
        last = it["hist"][-1]
        a, b = r["proj"], par[1]["proj"]
        if cfg.startswith("fock"):
            delta = max(0.0, 1 - a["trace"], 1 - b["trace"])
            if delta > 1e-3:
                chk.inconclusive += 1
                return
            tol = 2 * a["D"] * delta ** 0.5 + 1e-6
        else:
            tol = 1e-9 * (1 + abs(nbar(b)))
        if last["name"] in PASSIVE and abs(nbar(a) - nbar(b)) > tol:
            chk.violation("PassiveKeepsPhotons", f, {"config": cfg, "program": short(it["hist"]), "hist": it["hist"],
                                                     "before": nbar(b), "after": nbar(a)})
        if last["name"] == "LossChannel" and nbar(a) > nbar(b) + tol:
            chk.violation("LossNoGain", f, {"config": cfg, "program": short(it["hist"]), "hist": it["hist"],
                                            "before": nbar(b), "after": nbar(a)})
        if last["name"] in UNITARY and not cfg.startswith("fock"):
            pa, pb = purity(a, cfg), purity(b, cfg)
            if abs(pa - pb) > 1e-8 * (1 + pb):
                chk.violation("UnitaryKeepsPurity", f, {"config": cfg, "program": short(it["hist"]), "hist": it["hist"],
                                                        "before": pb, "after": pa})
        if cfg.startswith("fock") and last["name"] in UNITARY | {"LossChannel"}:
            # trace may only be lost through truncation: the deficit must be explained by the exact state's energy
            mu, V = sc.exact_arrays(it["st"])
            n = len(it["st"]["modes"])
            nb = max((V[i, i] + V[i + n, i + n] + mu[i] ** 2 + mu[i + n] ** 2) / 4 - 0.5 for i in range(n))
            # (the deficit inherited from truncating an earlier, energetic state is not this operation's)
            if (b["trace"] - a["trace"]) > 1e-9 and nb < 1e-9 and abs(nbar(b)) < 1e-9:
                chk.violation("TraceLostWithoutEnergy", f, {"config": cfg, "program": short(it["hist"]), "trace": a["trace"]})
    run_models(chk, chk.tier, want)

    def judge(cfg, cutoff, it, p, oracle, o):
        if not o["ok"]:
            return
        f = cat_features(cfg, it, p)
        det = {"config": cfg, "program": "Catstate(a=%s, p=%s) ; %s" % (lattice.fmt_p([it["amp"]]), p, short(it["hist"][1:]))}
        for clause, val in sc.physical_defects(o["proj"], cfg):
            chk.violation(clause, f, dict(det, value=val))
    cat_programs(chk, judge)
    fock_loss(chk, "TraceLostWithoutTruncation")
    from . import p_rel
    p_rel.float_programs(chk, {"Physical", "PassiveKeepsPhotons", "UnitaryKeepsPurity", "LossNoGain", "ConditionalStateNormalised"})
    # purity / global uncertainty on the model itself (2-mode instance, exact determinants)
    chk.tlc("MC_Gauss", constants={"N": 2, "Depth": 2 if chk.tier == "quick" else 3, "AlphaId": "q" if chk.tier == "quick" else "d",
                                   "PrefixId": "e2", "KNum": 1, "KDen": 1, "EMIT": False},
            invariants=["Physical", "PhysicalDet"], properties=["UnitaryKeepsPurity", "PassiveKeepsPhotons", "LossNoGain"])
