"""C01, C05, C07: lattice replay of MC_Gauss behaviours on the four simulator configurations."""
import numpy as np

from . import common, lattice
from .lattice import short

PASSIVE = {"Rgate", "Fouriergate", "BSgate", "MZgate"}
UNITARY = PASSIVE | {"Sgate", "Pgate", "S2gate", "CXgate", "CZgate", "Dgate", "Xgate", "Zgate"}
PREPS = {"Vacuum", "Coherent", "Squeezed", "DisplacedSqueezed", "Thermal"}
TWO = {"BSgate", "MZgate", "S2gate", "CXgate", "CZgate"}

DESIGN_INV = ("Physical",)
DESIGN_PROPS = ("PassiveKeepsPhotons", "LossNoGain", "TargetsOnly", "PrepUncorrelated")


def plans(tier):
    """(n, depth, alphabet, prefix, configs[(cfg, cutoff)]) per TLC model instance"""
    if tier == "quick":
        return [
            (3, 1, "g", "e3", [("gaussian", None), ("bosonic", None)]),
            (3, 2, "q", "e3", [("gaussian", None), ("bosonic", None)]),
            (2, 1, "q", "e2", [("fockmixed", 10), ("fock", 12)]),
            (3, 1, "q", "p3", [("fock", 9), ("fockmixed", 6)]),
            (4, 1, "q", "x4", [("gaussian", None), ("bosonic", None), ("fock", 7)]),
            (3, 1, "q", "x3", [("fockmixed", 8)]),
        ]
    return [
        (3, 2, "g", "e3", [("gaussian", None), ("bosonic", None)]),
        (3, 2, "q", "p3", [("gaussian", None), ("bosonic", None)]),
        (2, 2, "g", "e2", [("gaussian", None), ("bosonic", None)]),
        (2, 2, "q", "e2", [("fock", 10), ("fock", 13), ("fockmixed", 9)]),
        (3, 1, "q", "e3", [("fock", 8), ("fockmixed", 7)]),
        (3, 1, "q", "p3", [("fock", 10), ("fockmixed", 7)]),
        (2, 3, "d", "e2", [("gaussian", None), ("bosonic", None), ("fock", 10), ("fockmixed", 8)]),
        (3, 3, "d", "vac", [("gaussian", None), ("bosonic", None)]),
        (4, 1, "q", "e4", [("gaussian", None), ("bosonic", None)]),
    ]


def features(cfg, hist, nprefix):
    last = hist[-1] if len(hist) > nprefix else None
    f = {"backend": cfg}
    if last:
        f["op"] = last["name"]
        f["dag"] = bool(last.get("dag"))
        if len(last["modes"]) == 2:
            f["descending"] = last["modes"][0] > last["modes"][1]
        f["first_param_zero"] = bool(last.get("p")) and last["p"][0] in ([0, 1], [[1, 1], [0, 1]])
    return f


def run_models(chk, tier, want):
    """Generate behaviours, replay them, call want(cfg, cutoff, item, res, parent_res, nprefix) for each."""
    for (n, depth, alpha, prefix, cfgs) in plans(tier):
        items = lattice.generate(chk, n, depth, alpha, prefix, invariants=DESIGN_INV, properties=DESIGN_PROPS)
        nprefix = min(len(it["hist"]) for it in items)
        index = {lattice.hist_key(it["hist"]): i for i, it in enumerate(items)}
        for cfg, cutoff in cfgs:
            sel = [it for it in items if lattice.supported(it["hist"], cfg)]
            res = lattice.replay(sel, cfg, cutoff, n)
            pos = {lattice.hist_key(it["hist"]): j for j, it in enumerate(sel)}
            for it, r in zip(sel, res):
                par = None
                if len(it["hist"]) > nprefix:
                    j = pos.get(lattice.hist_key(it["hist"][:-1]))
                    par = (sel[j], res[j]) if j is not None else None
                want(cfg, cutoff, it, r, par, nprefix)
                chk.traces += 1
                nontriv = len(it["hist"]) > nprefix
                chk.count(key=(cfg, cutoff, lattice.hist_key(it["hist"])), nontrivial=nontriv)
            if sel:
                chk.sample({"config": cfg, "cutoff": cutoff, "program": short(sel[len(sel) // 2]["hist"]),
                            "exact_mean": sel[len(sel) // 2]["st"]["mu"]})


def unexpected(chk, cfg, cutoff, it, r, nprefix, prop):
    f = features(cfg, it["hist"], nprefix)
    f["error"] = r["err"]
    chk.violation("UnexpectedError", f, {"config": cfg, "cutoff": cutoff, "program": short(it["hist"]), "hist": it["hist"],
                                         "error": r["err"], "msg": r["msg"]})


# ---- C01 ----------------------------------------------------------------------------------------------
def c01(chk):
    from . import sfx_cmp as sc
    chk.rule = ("TLC enumerates every operation sequence of the stated depth over the lattice alphabet (all ordered target "
                "choices) after an entangling prefix; each reached (history, exact state) is replayed on each simulator "
                "configuration and all first/second moments compared with the exact state. Non-trivial = at least one "
                "operation after the prefix; distinct by (configuration, history).")
    chk.assumptions = ["lattice parameters (rational circle points, rational e^r, rational sqrt(T)); Fock slack "
                       "5*sqrt(delta)+1e-6 / 2*D*sqrt(delta)+1e-6 with delta the measured trace deficit; delta>1e-3 inconclusive",
                       "trusted: TLC, spec/overrides/Rat.java (BigInteger), numpy, harness ladder operators"]

    def want(cfg, cutoff, it, r, par, nprefix):
        if not r["ok"]:
            return unexpected(chk, cfg, cutoff, it, r, nprefix, "C01")
        verdict, worst, info = sc.compare_state(it["st"], r["proj"], cfg)
        if verdict == "inconclusive":
            chk.inconclusive += 1
        elif verdict == "bad":
            # attribute to the last operation only if the parent prefix agreed (otherwise the parent reports it)
            if par is not None and par[1]["ok"] and sc.compare_state(par[0]["st"], par[1]["proj"], cfg)[0] == "bad":
                return
            chk.violation("StateMatchesSpec", features(cfg, it["hist"], nprefix),
                          {"config": cfg, "cutoff": cutoff, "program": short(it["hist"]), "hist": it["hist"], "info": info,
                           "exact": it["st"]})
    run_models(chk, chk.tier, want)


# ---- C05 ----------------------------------------------------------------------------------------------
def c05(chk):
    from . import sfx_cmp as sc
    chk.rule = ("Same behaviour set as C01; predicate: for the last operation of each history, the simulator's reduced "
                "moments of every non-target mode (marginals and cross-correlations among spectators) are unchanged with "
                "respect to the run of the history without that operation (code vs code), and for preparations the target "
                "block equals the spec's prepared state and its correlations with the rest vanish. Non-trivial = history "
                "with >= 1 operation after an entangling prefix.")
    chk.assumptions = ["prior states are the entangled/displaced/mixed prefixes of MC_Gauss; Fock slack from measured trace deficit",
                       "TargetsOnly and PrepUncorrelated are also TLC-checked on the model (action properties)"]

    def want(cfg, cutoff, it, r, par, nprefix):
        if not r["ok"] or par is None or not par[1]["ok"]:
            return
        last = it["hist"][-1]
        modes = it["st"]["modes"]
        n = len(modes)
        tpos = [modes.index(m) for m in last["modes"]]
        others = [i for i in range(n) if i not in tpos]
        idx = others + [i + n for i in others]
        a, b = r["proj"], par[1]["proj"]
        if cfg.startswith("fock"):
            delta = max(0.0, 1 - a["trace"], 1 - b["trace"])
            if delta > 1e-3:
                chk.inconclusive += 1
                return
            s1, s2 = 5 * delta ** 0.5 + 1e-6, 2 * a["D"] * delta ** 0.5 + 1e-6
        else:
            s1 = s2 = 1e-9 * (1 + float(np.max(np.abs(b["V"]))) + float(np.max(np.abs(b["mu"]))))
        if idx:
            dmu = float(np.max(np.abs(a["mu"][idx] - b["mu"][idx])))
            dV = float(np.max(np.abs(a["V"][np.ix_(idx, idx)] - b["V"][np.ix_(idx, idx)])))
            if dmu > s1 or dV > s2:
                chk.violation("TargetsOnly", features(cfg, it["hist"], nprefix),
                              {"config": cfg, "cutoff": cutoff, "program": short(it["hist"]), "hist": it["hist"],
                               "info": "spectator moments changed: dmu=%.3g dV=%.3g (slack %.3g/%.3g)" % (dmu, dV, s1, s2)})
                return
        if last["name"] in PREPS:
            tidx = tpos + [i + n for i in tpos]
            mu, V = sc.exact_arrays(it["st"])
            cross = float(np.max(np.abs(a["V"][np.ix_(tidx, idx)]))) if idx else 0.0
            dblock = max(float(np.max(np.abs(a["V"][np.ix_(tidx, tidx)] - V[np.ix_(tidx, tidx)]))),
                         float(np.max(np.abs(a["mu"][tidx] - mu[tidx]))))
            if cross > s2 or dblock > s2:
                chk.violation("PrepPostState", features(cfg, it["hist"], nprefix),
                              {"config": cfg, "cutoff": cutoff, "program": short(it["hist"]), "hist": it["hist"],
                               "info": "prepared block off by %.3g, residual correlation %.3g (slack %.3g)" % (dblock, cross, s2)})
    run_models(chk, chk.tier, want)


# ---- C07 ----------------------------------------------------------------------------------------------
def c07(chk):
    from . import sfx_cmp as sc
    chk.rule = ("Same behaviour set as C01; predicates on every returned state: covariance symmetric and V + i*Omega >= 0, "
                "bosonic weights sum to one and moments real, Fock trace <= 1 and Hermitian (+ PSD on <= 2 modes); per last "
                "operation: unitary => purity unchanged, passive => total mean photon number unchanged, loss => not increased "
                "(code vs code on the parent history), Fock trace deficit only where the exact state has tail mass. "
                "The same laws are TLC-checked on the kernel (Physical, PassiveKeepsPhotons, LossNoGain; UnitaryKeepsPurity "
                "and GlobalUncertainty on the 2-mode instance).")
    chk.assumptions = ["Fock conservation laws are compared within the truncation slack derived from the measured trace deficit"]

    def purity(proj, cfg):
        V = proj["V"]
        return 1.0 / np.sqrt(max(np.linalg.det(V), 1e-300))

    def nbar(proj):
        n = proj["n"]
        V, mu = proj["V"], proj["mu"]
        return float(sum((V[i, i] + V[i + n, i + n] + mu[i] ** 2 + mu[i + n] ** 2) / 4 - 0.5 for i in range(n)))

    def want(cfg, cutoff, it, r, par, nprefix):
        if not r["ok"]:
            return
        f = features(cfg, it["hist"], nprefix)
        for clause, val in sc.physical_defects(r["proj"], cfg):
            chk.violation(clause, f, {"config": cfg, "cutoff": cutoff, "program": short(it["hist"]), "hist": it["hist"], "value": val})
        if par is None or not par[1]["ok"]:
            return
        last = it["hist"][-1]
        a, b = r["proj"], par[1]["proj"]
        if cfg.startswith("fock"):
            delta = max(0.0, 1 - a["trace"], 1 - b["trace"])
            if delta > 1e-3:
                chk.inconclusive += 1
                return
            tol = 2 * a["D"] * delta ** 0.5 + 1e-6
        else:
            tol = 1e-9 * (1 + abs(nbar(b)))
        if last["name"] in PASSIVE and abs(nbar(a) - nbar(b)) > tol:
            chk.violation("PassiveKeepsPhotons", f, {"config": cfg, "program": short(it["hist"]), "hist": it["hist"],
                                                     "before": nbar(b), "after": nbar(a)})
        if last["name"] == "LossChannel" and nbar(a) > nbar(b) + tol:
            chk.violation("LossNoGain", f, {"config": cfg, "program": short(it["hist"]), "hist": it["hist"],
                                            "before": nbar(b), "after": nbar(a)})
        if last["name"] in UNITARY and not cfg.startswith("fock"):
            pa, pb = purity(a, cfg), purity(b, cfg)
            if abs(pa - pb) > 1e-8 * (1 + pb):
                chk.violation("UnitaryKeepsPurity", f, {"config": cfg, "program": short(it["hist"]), "hist": it["hist"],
                                                        "before": pb, "after": pa})
        if cfg.startswith("fock") and last["name"] in UNITARY | {"LossChannel"}:
            # trace may only be lost through truncation: the deficit must be explained by the exact state's energy
            mu, V = sc.exact_arrays(it["st"])
            n = len(it["st"]["modes"])
            nb = max((V[i, i] + V[i + n, i + n] + mu[i] ** 2 + mu[i + n] ** 2) / 4 - 0.5 for i in range(n))
            if (1 - a["trace"]) > 1e-9 and nb < 1e-9:
                chk.violation("TraceLostWithoutEnergy", f, {"config": cfg, "program": short(it["hist"]), "trace": a["trace"]})
    run_models(chk, chk.tier, want)
    # purity / global uncertainty on the model itself (2-mode instance, exact determinants)
    chk.tlc("MC_Gauss", constants={"N": 2, "Depth": 2 if chk.tier == "quick" else 3, "AlphaId": "q" if chk.tier == "quick" else "d",
                                   "PrefixId": "e2", "KNum": 1, "KDen": 1, "EMIT": False},
            invariants=["Physical", "PhysicalDet"], properties=["UnitaryKeepsPurity", "PassiveKeepsPhotons", "LossNoGain"])
