"""C04: every internal reordering respects mode and measurement dependencies (direction B, trace validation).
Circuits are enumerated exhaustively up to a bound (and randomly beyond), fed to the real reordering routines,
and the recorded outputs are validated by TLC against spec/TraceOrder.tla (scheduler of CircuitOrder.tla)."""
import itertools
import json
import os
import random
from concurrent.futures import ThreadPoolExecutor

from . import common

NM = 3  # modes of the exhaustive family


def shapes(nm=NM):
    sh = []
    for m in range(nm):
        sh += [("G1", m), ("MF", m), ("MH", m), ("V", m)]
    for a in range(nm):
        for b in range(nm):
            if a != b:
                sh += [("G2", a, b), ("XP", a, b)]
            if a < b:
                sh.append(("MF2", a, b))
    return sh


def with_new(circ, nm=NM):
    """variants of a circuit in which a New(1) appears and later commands may touch the new mode"""
    out = []
    for pos in range(len(circ) + 1):
        for extra in ((("G1", nm),), (("G2", 0, nm),), (("G2", nm, nm - 1), ("MF", nm))):
            c = list(circ[:pos]) + [("NW", nm)] + list(circ[pos:]) + list(extra)
            out.append(tuple(c))
    return out


def _build(circ, nm):
    import strawberryfields as sf
    from strawberryfields import ops
    prog = sf.Program(nm)
    with prog.context as q:
        regs = {i: q[i] for i in range(nm)}
        for k, s in enumerate(circ):
            kind = s[0]
            if kind == "G1":
                ops.Rgate(0.1 + 0.01 * k) | regs[s[1]]
            elif kind == "G2":
                ops.BSgate(0.3 + 0.01 * k, 0.2) | (regs[s[1]], regs[s[2]])
            elif kind == "MF":
                # every second measurement post-selects (value k % 3): options are part of a command
                ops.MeasureFock(**({"select": [k % 3]} if k % 2 else {})) | regs[s[1]]
            elif kind == "MF2":
                ops.MeasureFock(**({"select": [k % 3, (k + 1) % 3]} if k % 2 else {})) | (regs[s[1]], regs[s[2]])
            elif kind == "MH":
                ops.MeasureHomodyne(0.0) | regs[s[1]]
            elif kind == "V":
                ops.Vacuum() | regs[s[1]]
            elif kind == "XP":
                ops.Xgate(regs[s[2]].par) | regs[s[1]]
            elif kind == "NW":
                (r,) = ops.New(1)
                regs[r.ind] = r
            else:
                raise KeyError(kind)
    return prog


PREDS = {
    "fock": lambda ops: (lambda o: isinstance(o, ops.MeasureFock)),
    "meas": lambda ops: (lambda o: isinstance(o, ops.Measurement)),
    "two": lambda ops: (lambda o: isinstance(o, ops.BSgate)),
    "none": lambda ops: (lambda o: False),
}


def _cases_for(arg):
    """worker: run the real routines on one circuit; return list of case dicts (ids are 1-based input positions)"""
    circ, nm = arg
    import strawberryfields as sf  # noqa
    from strawberryfields import ops
    from strawberryfields import program_utils as pu
    out = []
    try:
        prog = _build(circ, nm)
    except Exception as e:  # noqa
        return [{"build_error": type(e).__name__, "circ": circ}]
    seq = list(prog.circuit)
    ident = {id(c): k + 1 for k, c in enumerate(seq)}

    def optcodes(c):
        sel = getattr(c.op, "select", None)
        return [] if sel is None else [[r.ind, int(v) + 1] for r, v in zip(c.reg, sel) if v is not None]

    def abstract(pred):
        return [{"id": k + 1, "wires": sorted({r.ind for r in c.get_dependencies()} | {r.ind for r in c.reg}),
                 "marked": bool(pred(c.op)), "opt": optcodes(c)} for k, c in enumerate(seq)]

    def ids(cmds):
        return [ident.get(id(c), 0) for c in cmds]
    none = PREDS["none"](ops)
    try:
        o1 = pu.DAG_to_list(pu.list_to_DAG(seq))
        out.append({"kind": "topo", "fn": "list_to_DAG/DAG_to_list", "circ": abstract(none), "out": ids(o1), "a": 0, "b": 0, "merged": [], "mergedopt": []})
        o2 = pu.DAG_to_list(pu.grid_to_DAG(pu.list_to_grid(list(reversed(list(reversed(seq)))))))
        out.append({"kind": "topo", "fn": "list_to_grid/grid_to_DAG/DAG_to_list", "circ": abstract(none), "out": ids(o2), "a": 0, "b": 0, "merged": [], "mergedopt": []})
        for pname in ("fock", "meas", "two"):
            pred = PREDS[pname](ops)
            A, B, C = pu.group_operations(seq, pred)
            out.append({"kind": "group", "fn": "group_operations[%s]" % pname, "circ": abstract(pred), "out": ids(list(A) + list(B) + list(C)),
                        "a": len(A), "b": len(B), "merged": [], "mergedopt": []})
    except Exception as e:  # noqa
        out.append({"error": type(e).__name__, "msg": str(e)[:200], "fn": "program_utils", "circ_shapes": circ})
    # GBS target: only circuits made of its primitives keep command identity
    if all(s[0] in ("G1", "G2", "MF", "MF2") for s in circ) and any(s[0] in ("MF", "MF2") for s in circ):
        pred = PREDS["fock"](ops)
        try:
            comp = prog.compile(compiler="gbs")
            cc = list(comp.circuit)
            last = cc[-1]
            members = [k + 1 for k, c in enumerate(seq) if pred(c.op)]
            body = ids(cc[:-1])
            if not isinstance(last.op, ops.MeasureFock) or 0 in body:
                out.append({"error": "GBSShape", "msg": "compiled circuit does not end in one collected MeasureFock of input commands",
                            "fn": "GBS.compile", "circ_shapes": circ})
            else:
                out.append({"kind": "gbs", "fn": "GBS.compile", "circ": abstract(pred), "out": body + members, "a": len(body),
                            "b": len(members), "merged": [r.ind for r in last.reg],
                            "mergedopt": [[r.ind, 0 if (last.op.select is None or v is None) else int(v) + 1]
                                          for r, v in zip(last.reg, last.op.select or [None] * len(last.reg))]})
        except pu.CircuitError:
            out.append({"refused": True, "fn": "GBS.compile"})
        except Exception as e:  # noqa
            out.append({"error": type(e).__name__, "msg": str(e)[:200], "fn": "GBS.compile", "circ_shapes": circ})
    return out


def validate(chk, cases, label):
    """TLC validates every case; returns verdict per case index"""
    chunks = [cases[i:i + 15000] for i in range(0, len(cases), 15000)]
    verdicts = {}

    def one(ci):
        chunk = chunks[ci]
        path = os.path.join(chk.tmp, "order_%s_%d.json" % (label, ci))
        with open(path, "w") as f:
            json.dump([{k: c[k] for k in ("circ", "kind", "out", "a", "b", "merged", "mergedopt")} for c in chunk], f)
        r = common.run_tlc("TraceOrder", invariants=["Report"], workers=4, env={"CASES_FILE": path}, tmp=chk.tmp)
        return ci, r
    with ThreadPoolExecutor(4) as ex:
        for ci, r in ex.map(one, range(len(chunks))):
            chk.states += r.distinct
            chk.transitions += r.generated
            if not r.ok():
                raise common.MachineryError("TraceOrder failed: %s\n%s" % (r.errors[:3], r.out[-1500:]))
            for j in r.json:
                verdicts[ci * 15000 + j["tid"] - 1] = (j["verdict"], j["at"])
    chk.tlc_cmds.append("tlc TraceOrder CASES_FILE=<%d recorded cases in %d chunks>" % (len(cases), len(chunks)))
    if len(verdicts) != len(cases):
        raise common.MachineryError("TraceOrder: %d verdicts for %d cases" % (len(verdicts), len(cases)))
    return verdicts


def c04(chk):
    tier = chk.tier
    rnd = random.Random(chk.seed)
    chk.rule = ("Circuits: all sequences of <= L commands over 27 command shapes on 3 modes (1-/2-mode gates, Fock and homodyne "
                "measurements on 1-2 modes, preparations, gates with a measured parameter of another mode), their variants with a "
                "New(1) command, and random circuits up to 12 commands on 6 modes; each is passed to list_to_DAG/DAG_to_list, "
                "list_to_grid/grid_to_DAG, group_operations (3 predicates) and GBS.compile; TLC consumes every recorded output with "
                "the scheduler of CircuitOrder (same command objects, dependency order, partition promise, GBS collection). "
                "Non-trivial = the circuit has >= 2 commands sharing a wire and the routine returned an order.")
    chk.assumptions = ["command identity = Python object identity of Command instances; dependency = shared register mode or "
                       "measured-parameter link (Command.get_dependencies)", "refusals (CircuitError) of GBS.compile are allowed"]
    # design level: scheduler == legal reorderings, exhaustively
    chk.tlc("MC_Order", constants={"MaxLen": 3 if tier == "quick" else 4}, extra_cfg="CONSTANT Modes = {0,1,2}",
            invariants=["Sound", "PromiseKept", "AllLegalReachable", "Progress"])
    common.warm(fock=False)
    sh = shapes()
    L = 2 if tier == "quick" else 3
    circs = []
    for n in range(1, L + 1):
        circs += [(c, NM) for c in itertools.product(sh, repeat=n)]
    if tier == "quick":
        allc3 = list(itertools.product(sh, repeat=3))
        circs += [(c, NM) for c in rnd.sample(allc3, 6000)]
    else:
        allc4 = [tuple(rnd.choice(sh) for _ in range(4)) for _ in range(60000)]
        circs += [(c, NM) for c in allc4]
    base = [c for c, _ in circs if len(c) <= 2]
    for c in base[::3 if tier == "quick" else 1]:
        circs += [(v, NM) for v in with_new(c)]
    sh6 = shapes(6)
    for _ in range(3000 if tier == "quick" else 40000):
        circs.append((tuple(rnd.choice(sh6) for _ in range(rnd.randrange(4, 13))), 6))
    res = common.pmap(_cases_for, circs)
    cases, owners = [], []
    refused = 0
    for (c, nm), lst in zip(circs, res):
        for cs in lst:
            if "build_error" in cs:
                continue
            if cs.get("refused"):
                refused += 1
                continue
            if "error" in cs:
                chk.violation("UnexpectedError", {"fn": cs["fn"], "error": cs["error"]}, {"circuit": c, "msg": cs["msg"]})
                continue
            cases.append(cs)
            owners.append(c)
    verdicts = validate(chk, cases, "main")
    for k, cs in enumerate(cases):
        v, at = verdicts[k]
        chk.traces += 1
        dep = any(set(a["wires"]) & set(b["wires"]) for a, b in itertools.combinations(cs["circ"], 2))
        chk.count(key=(cs["fn"], json.dumps(owners[k])), nontrivial=dep)
        if v != "accepted":
            chk.violation(v, {"fn": cs["fn"]}, {"circuit": owners[k], "abstract": cs["circ"], "out": cs["out"], "a": cs["a"],
                                                "b": cs["b"], "merged": cs["merged"], "rejected_at": at})
    chk.notes["gbs_refusals"] = refused
    chk.notes["circuits"] = len(circs)
    for k in (0, len(cases) // 2, len(cases) - 1):
        chk.sample({"fn": cases[k]["fn"], "circuit": owners[k], "out": cases[k]["out"], "verdict": verdicts[k][0]})
    chk.exhaustive = False
    chk.notes["exhaustive_part"] = "all circuits of <= %d commands over the 27 shapes" % L
