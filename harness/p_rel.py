"""Direction B for C05 / C07: random programs with arbitrary float parameters are executed on the simulators; observations
before and after the last operation are quantised and validated by TLC against the relational laws (spec/TraceRel.tla)."""
import math
import random
import traceback

import numpy as np

from . import common, tracecases

_CFG = {}
ONE = [("Rgate", "passive", lambda r: (r.uniform(-7, 7),)), ("Sgate", "active", lambda r: (r.uniform(-0.5, 0.5), r.uniform(-4, 4))),
       ("Dgate", "active", lambda r: (r.uniform(0, 0.6), r.uniform(-4, 4))), ("Xgate", "active", lambda r: (r.uniform(-0.8, 0.8),)),
       ("Zgate", "active", lambda r: (r.uniform(-0.8, 0.8),)), ("Pgate", "active", lambda r: (r.uniform(-0.6, 0.6),)),
       ("Fouriergate", "passive", lambda r: ()), ("LossChannel", "loss", lambda r: (r.choice([r.uniform(0, 1), 0.0, 1.0]),)),
       ("ThermalLossChannel", "chan", lambda r: (r.uniform(0.1, 1), r.uniform(0, 0.5))),
       ("Vacuum", "prep", lambda r: ()), ("Coherent", "prep", lambda r: (r.uniform(0, 0.6), r.uniform(-4, 4))),
       ("Squeezed", "prep", lambda r: (r.uniform(0, 0.4), r.uniform(-4, 4))), ("Thermal", "prep", lambda r: (r.uniform(0, 0.4),)),
       ("DisplacedSqueezed", "prep", lambda r: (r.uniform(0, 0.4), r.uniform(-4, 4), r.uniform(0, 0.3), r.uniform(-4, 4)))]
MEAS = [("MeasureFock", "meas", lambda r: ()), ("MeasureHomodyne", "meas", lambda r: (r.uniform(-4, 4),)), ("MeasureHeterodyne", "meas", lambda r: ())]
TWO = [("BSgate", "passive", lambda r: (r.choice([r.uniform(-4, 4), 0.0, math.pi / 2]), r.uniform(-4, 4))), ("MZgate", "passive", lambda r: (r.choice([r.uniform(-4, 4), 0.0]), r.uniform(-4, 4))),
       ("S2gate", "active", lambda r: (r.uniform(-0.4, 0.4), r.uniform(-4, 4))), ("CXgate", "active", lambda r: (r.uniform(-0.5, 0.5),)),
       ("CZgate", "active", lambda r: (r.uniform(-0.5, 0.5),))]


def gen_case(rnd):
    n = rnd.choice([2, 3, 3, 4])
    prefix = []
    for _ in range(rnd.randrange(n, n + 3)):
        if rnd.random() < 0.55:
            a, b = rnd.sample(range(n), 2)
            name, _, par = rnd.choice(TWO)
            prefix.append((name, par(rnd), (a, b), False))
        else:
            name, _, par = rnd.choice(ONE[:9])
            prefix.append((name, par(rnd), (rnd.randrange(n),), False))
    u = rnd.random()
    if u < 0.12:
        name, cls, par = rnd.choice(MEAS)           # a sampled measurement (the generator is seeded per case)
        modes = (rnd.randrange(n),)
    elif u < 0.56:
        name, cls, par = rnd.choice(TWO)
        modes = tuple(rnd.sample(range(n), 2))
    else:
        name, cls, par = rnd.choice(ONE)
        modes = (rnd.randrange(n),)
    dag = cls in ("passive", "active") and rnd.random() < 0.3
    return {"n": n, "prefix": prefix, "last": (name, par(rnd), modes, dag), "cls": cls}


def _observe(st, cfg, cutoff, targets, sfx):
    p = sfx.project_state(st, cfg, cutoff)
    n = p["n"]
    mu, V = p["mu"], p["V"]
    others = [i for i in range(n) if i not in targets]
    idx = others + [i + n for i in others]
    spect = list(mu[idx]) + list(V[np.ix_(idx, idx)].ravel())
    nbar = float(sum((V[i, i] + V[i + n, i + n] + mu[i] ** 2 + mu[i + n] ** 2) / 4 - 0.5 for i in range(n)))
    tidx = list(targets) + [t + n for t in targets]
    cross = float(np.max(np.abs(V[np.ix_(tidx, idx)]))) if idx else 0.0
    if cfg.startswith("fock"):
        D = st.cutoff_dim
        rho = np.asarray(st.dm())
        mat = np.transpose(rho, [2 * i for i in range(n)] + [2 * i + 1 for i in range(n)]).reshape(D ** n, D ** n)
        ev = np.linalg.eigvalsh((mat + mat.conj().T) / 2)
        tr = float(np.real(np.trace(mat)))
        pur = float(np.real(np.trace(mat @ mat))) / max(tr * tr, 1e-30)
        obs = {"mineig": float(ev.min()), "trace": tr, "sym": float(np.max(np.abs(mat - mat.conj().T))), "pur": pur}
    else:
        Om = np.block([[np.zeros((n, n)), np.eye(n)], [-np.eye(n), np.zeros((n, n))]])
        ev = np.linalg.eigvalsh((V + V.T) / 2 + 1j * Om)
        obs = {"mineig": float(ev.min()), "trace": 1.0, "sym": float(np.max(np.abs(V - V.T))), "pur": 1.0 / math.sqrt(max(np.linalg.det(V), 1e-300))}
    obs.update(spect=[float(x) for x in spect], nbar=nbar, cross=cross)
    return obs


def _run_one(case):
    import strawberryfields as sf
    from strawberryfields import ops
    from . import sfx
    cfg, cutoff = _CFG["cfg"], _CFG["cutoff"]
    try:
        def prog(with_last):
            p = sf.Program(case["n"])
            with p.context as q:
                for (name, par, modes, dag) in case["prefix"] + ([case["last"]] if with_last else []):
                    op = getattr(ops, name)(*par)
                    if dag:
                        op = op.H
                    op | tuple(q[m] for m in modes)
            return p
        targets = case["last"][2]
        np.random.seed(abs(hash(describe(case))) % (2 ** 31))
        b = _observe(sfx.engine(cfg, cutoff).run(prog(False)).state, cfg, cutoff, targets, sfx)
        a = _observe(sfx.engine(cfg, cutoff).run(prog(True)).state, cfg, cutoff, targets, sfx)
        return {"ok": True, "before": b, "after": a}
    except Exception as e:  # noqa
        return {"ok": False, "err": type(e).__name__, "msg": str(e)[:200], "tb": traceback.format_exc()[-600:]}


def describe(case):
    f = lambda t: "%s%s(%s)|%s" % (t[0], ".H" if t[3] else "", ",".join("%.6g" % x for x in t[1]), ",".join(map(str, t[2])))
    return " ; ".join(f(t) for t in case["prefix"]) + "  ==>  " + f(case["last"])


def float_programs(chk, clauses):
    """run random float-parameter programs, let TLC judge; only verdicts in `clauses` are reported by this property"""
    rnd = random.Random(chk.seed * 7919 + 13)
    count = 1500 if chk.tier == "quick" else 20000
    cases = [gen_case(rnd) for _ in range(count)]
    Q = lambda x: int(round(x * 1e6))
    for cfg, cutoff, frac in (("gaussian", None, 1.0), ("bosonic", None, 1.0), ("fock", 9, 0.12), ("fockmixed", 7, 0.06)):
        sel = [c for c in cases if (cfg != "bosonic" or True)]
        sel = [c for c in sel if c["cls"] != "meas" or (c["last"][0] == "MeasureFock") == cfg.startswith("fock") or
               (c["last"][0] == "MeasureHomodyne")]      # photon counting updates the state on Fock only; heterodyne: phase space only
        if cfg.startswith("fock"):
            sel = [c for c in sel if c["n"] <= (3 if cfg == "fock" else 2) and c["last"][0] != "ThermalLossChannel" and
                   not any(t[0] == "ThermalLossChannel" for t in c["prefix"])][: int(count * frac)]
        _CFG.update(cfg=cfg, cutoff=cutoff)
        res = common.pmap(_run_one, sel)
        tc, owners = [], []
        for c, o in zip(sel, res):
            chk.count(key=(cfg, describe(c)), nontrivial=True)
            if not o["ok"]:
                chk.violation("UnexpectedError", {"backend": cfg, "op": c["last"][0], "error": o["err"], "float_parameters": True}, {"program": describe(c), "msg": o["msg"], "tb": o.get("tb")})
                continue
            if cfg.startswith("fock"):
                delta = max(0.0, 1 - o["before"]["trace"], 1 - o["after"]["trace"])
                if delta > 1e-3:
                    chk.inconclusive += 1
                    continue
                q = Q(2 * cutoff * math.sqrt(delta) + 1e-5)
            else:
                q = 1 + Q(1e-8 * (1 + max(abs(x) for x in o["before"]["spect"] + [o["before"]["nbar"]])))
            enc = lambda ob: {"spect": [Q(x) for x in ob["spect"]], "nbar": Q(ob["nbar"]), "pur": Q(min(ob["pur"], 2.0)), "mineig": Q(ob["mineig"]),
                              "trace": Q(ob["trace"]), "sym": Q(ob["sym"]), "cross": Q(ob["cross"])}
            tc.append({"cls": c["cls"], "q": q, "before": enc(o["before"]), "after": enc(o["after"])})
            owners.append(c)
        verdicts = tracecases.validate(chk, "TraceRel", tc, "rel_" + cfg, chunk=3000)
        for k, c in enumerate(owners):
            chk.traces += 1
            v = verdicts[k]["verdict"]
            if v != "accepted" and v in clauses:
                chk.violation(v, {"backend": cfg, "op": c["last"][0], "dag": c["last"][3], "float_parameters": True,
                                  "descending": len(c["last"][2]) == 2 and c["last"][2][0] > c["last"][2][1]},
                              {"config": cfg, "cutoff": cutoff, "program": describe(c), "case": tc[k]})
    chk.sample({"float_parameter_program": describe(cases[0])})
