"""C12, single-loop time-domain devices (compilers TDM and TD2): MC_TDMDev.tla enumerates the device template with at most
one (thorough: two) deviations -- another gate, another mode, a changed fixed argument, a dropped / added gate, one time bin of
one parameter array outside its allowed domain, too many time bins, commuting gates exchanged.  Each is compiled with the real
code for a generated device; a refusal is never an alarm; every returned circuit is judged by TLC (TraceDevice.tla): gate for
gate, mode for mode, every per-bin value inside the parameter's domain (points and intervals), fixed arguments at their value,
time bins within the device's limit."""
import json
import traceback

from . import common, tracecases

_CFG = {}

# allowed values per template parameter: points and intervals
DOMS = {"rs": [0.0, [0.5, 1.0]], "r": [[-1.0, 1.0]], "bs": [0.25, 0.5, [1.0, 1.5]], "m": [0.0, 1.5]}
INSIDE = {"rs": [0.0, 1.0, 0.75], "r": [-1.0, 1.0, 0.5], "bs": [0.25, 1.5, 1.25], "m": [0.0, 1.5, 0.0]}   # valid values, cycled over the bins
                                                                                                       # (smallest and largest first)
VALS = {  # deviation -> value per parameter
    "below": {"rs": -0.25, "r": -1.5, "bs": 0.125, "m": -1.0},
    "above": {"rs": 1.25, "r": 1.5, "bs": 1.75, "m": 2.0},
    "gap": {"rs": 0.25, "r": None, "bs": 0.75, "m": 0.5},
    "boundary_lo": {"rs": 0.5, "r": -1.0, "bs": 1.0, "m": None},
    "boundary_hi": {"rs": 1.0, "r": 1.0, "bs": 1.5, "m": None},
    "point": {"rs": 0.0, "r": None, "bs": 0.5, "m": 0.0},
}
PARS = ["rs", "r", "bs", "m"]


def layout_text(target, tm, sphase=0.0):
    lines = ["name template_tdm", "version 1.0", "target %s (shots=1)" % target, "type tdm (temporal_modes=2)"]
    for k, nm in enumerate(PARS):
        lines += ["float array p%d[1, %d] =" % (k, tm), "    {%s}" % nm]
    lines += ["", "Sgate({rs}, %s) | 1" % sphase, "Rgate({r}) | 0", "BSgate({bs}, 0.0) | [0, 1]", "MeasureHomodyne({m}) | 0"]
    return "\n".join(lines) + "\n"


def device_spec(target, tmax, sphase=0.0):
    return {"target": target, "layout": layout_text(target, 4, sphase), "modes": {"concurrent": 2, "spatial": 1, "temporal_max": tmax},
            "compiler": [target], "gate_parameters": {k: list(v) for k, v in DOMS.items()}}


TEMPLATE = [{"name": "Sgate", "modes": [1]}, {"name": "Rgate", "modes": [0]}, {"name": "BSgate", "modes": [0, 1]}, {"name": "MeasureHomodyne", "modes": [0]}]


def dom_of(key):
    out = []
    for e in DOMS[key]:
        lo, hi = (e, e) if not isinstance(e, list) else e
        out.append([int(round(lo * 1e6)) - 1, int(round(hi * 1e6)) + 1])
    return out


ZERO = [[-1, 1]]


def _run_one(it):
    import numpy as np
    import strawberryfields as sf
    from strawberryfields import ops
    from strawberryfields.compilers import compiler_db
    from strawberryfields.program_utils import CircuitError
    try:
        T = it["T"]
        target = it["target"]
        tmax = T - 1 if it["long"] else 4
        if tmax < 1:
            return {"ok": True, "res": {"skipped": True}}
        dev = sf.Device(spec=device_spec(target, tmax))
        arrays = {k: [INSIDE[k][t % 3] for t in range(T)] for k in PARS}
        if it["val"] != "none":
            key = PARS[it["vpar"] - 1]
            v = VALS[it["val"]][key]
            if v is None:
                return {"ok": True, "res": {"skipped": True}}
            arrays[key][it["vbin"] - 1] = v
        g, gp = it["gate"], it["gpos"]
        extra = [0.3] * T
        args = [arrays[k] for k in PARS] + ([extra] if g == "fixed_array" else [])
        prog = sf.TDMProgram(N=2)
        with prog.context(*args) as (p, q):
            def sg():
                if g == "other_gate" and gp == 1:
                    ops.Rgate(p[0]) | q[1]
                elif g == "other_mode" and gp == 1:
                    ops.Sgate(p[0]) | q[0]
                elif g == "fixed_number" and gp == 1:
                    ops.Sgate(p[0], 0.3) | q[1]
                elif g == "fixed_array" and gp == 1:
                    ops.Sgate(p[0], p[4]) | q[1]
                elif not (g == "dropped" and gp == 1):
                    ops.Sgate(p[0]) | q[1]

            def rg():
                if g == "other_gate" and gp == 2:
                    ops.Sgate(p[1]) | q[0]
                elif g == "other_mode" and gp == 2:
                    ops.Rgate(p[1]) | q[1]
                elif not (g == "dropped" and gp == 2):
                    ops.Rgate(p[1]) | q[0]
            if g == "added":
                ops.Rgate(0.25) | q[1]
            if it["swapped"]:
                rg()
                sg()
            else:
                sg()
                rg()
            if g == "other_gate" and gp == 3:
                ops.Rgate(p[2]) | q[0]
            elif g == "other_mode" and gp == 3:
                ops.BSgate(p[2], 0.0) | (q[1], q[0])
            elif g == "swapped_modes":
                ops.BSgate(p[2], 0.0) | (q[1], q[0])
            elif g == "fixed_number" and gp == 3:
                ops.BSgate(p[2], 0.3) | (q[0], q[1])
            elif g == "fixed_array" and gp == 3:
                ops.BSgate(p[2], p[4]) | (q[0], q[1])
            elif not (g == "dropped" and gp == 3):
                ops.BSgate(p[2], 0.0) | (q[0], q[1])
            if g == "other_gate" and gp == 4:
                ops.MeasureFock() | q[0]
            elif g == "other_mode" and gp == 4:
                ops.MeasureHomodyne(p[3]) | q[1]
            elif not (g == "dropped" and gp == 4):
                ops.MeasureHomodyne(p[3]) | q[0]
        compiler_db[target].reset_circuit()
        rec = {}
        try:
            if it.get("sequence"):
                # the same process compiled this program for its own device just before; now it is compiled for another device of
                # the same compiler class (same gates and modes, the squeezer's phase hard-wired to 0.3): the result is judged
                # against THAT device -- a refusal, or a circuit with the phase the second device fixes
                prog.compile(device=dev, compiler=target)
                dev = sf.Device(spec=device_spec(target, tmax, sphase=0.3))
            comp = prog.compile(device=dev, compiler=target)
        except (CircuitError, ValueError) as e:
            rec["refused"] = "%s: %s" % (type(e).__name__, str(e)[:120])
            return {"ok": True, "res": rec}
        pars = comp.tdm_params

        def values(x):
            nm = getattr(x, "name", None)
            if nm is not None and nm.startswith("p") and nm[1:].isdigit():
                return [float(v) for v in pars[int(nm[1:])]]
            return [float(np.real(x))] * len(pars[0])
        proj, perm, used = [], [], set()
        keys = {"Sgate": ["rs", None], "Rgate": ["r"], "BSgate": ["bs", None], "MeasureHomodyne": ["m"]}
        for cmd in comp.circuit:
            name = type(cmd.op).__name__
            modes = [r.ind for r in cmd.reg]
            j = next((i for i, t in enumerate(TEMPLATE) if i not in used and t["name"] == name and t["modes"] == modes), None)
            if j is None:
                j = next((i for i in range(len(TEMPLATE)) if i not in used), None)
            if j is not None:
                used.add(j)
                perm.append(j + 1)
            ps, dom = [], []
            ks = keys.get(name, [])
            for a, x in enumerate(cmd.op.p):
                vs = values(x)
                ps += [int(round(v * 1e6)) for v in vs]
                d = dom_of(ks[a]) if a < len(ks) and ks[a] is not None else ZERO
                if it.get("sequence") and name == "Sgate" and a == 1:
                    d = [[300000 - 1, 300000 + 1]]
                dom += [d] * len(vs)
            proj.append({"name": name, "modes": modes, "p": ps, "dom": dom, "dag": bool(getattr(cmd.op, "dagger", False))})
        rec.update(compiled=proj, perm=perm, bins=len(pars[0]) if pars else 0, maxbins=tmax)
        return {"ok": True, "res": rec}
    except Exception as e:  # noqa
        return {"ok": False, "err": type(e).__name__, "msg": str(e)[:300], "tb": traceback.format_exc()[-1200:]}


def tdm_devices(chk):
    tier = chk.tier
    chk.assumptions.append("single-loop time-domain devices: one generated template (Sgate / Rgate / BSgate / MeasureHomodyne on 2 concurrent modes) "
                           "with point-and-interval domains; compilers TDM and TD2; at most %d deviation(s) per program" % (1 if tier == "quick" else 2))
    r = chk.tlc("MC_TDMDev", constants={"MaxT": 3, "Defects": 1 if tier == "quick" else 2, "EMIT": True},
                invariants=["EmitInv"], use_override=False)
    items = []
    for j in r.json:
        for target in ("TDM", "TD2"):
            items.append(dict(j, target=target))
            if j["inside"] and j["val"] == "none" and not j["swapped"]:
                items.append(dict(j, target=target, sequence=True))
    res = common.pmap(_run_one, items)
    cases, owners = [], []
    stats = {"accepted": 0, "refused": 0, "refused_inside_promise": 0, "skipped": 0}
    for it, o in zip(items, res):
        f = {"compiler": it["target"], "gate_deviation": it["gate"], "value_deviation": it["val"], "too_long": bool(it["long"]),
             "inside_promise": bool(it["inside"]), "after_other_device": bool(it.get("sequence"))}
        det = {"instance": {k: it[k] for k in ("T", "gate", "gpos", "val", "vpar", "vbin", "long", "swapped")}}
        if not o["ok"]:
            chk.violation("UnexpectedError", dict(f, error=o["err"]), dict(det, msg=o["msg"], tb=o["tb"]))
            continue
        rec = o["res"]
        if rec.get("skipped"):
            stats["skipped"] += 1
            continue
        chk.traces += 1
        chk.count(key=json.dumps([it[k] for k in ("target", "T", "gate", "gpos", "val", "vpar", "vbin", "long", "swapped")] + [bool(it.get("sequence"))]), nontrivial=True)
        if "refused" in rec:
            stats["refused"] += 1
            if it["inside"]:
                stats["refused_inside_promise"] += 1
                chk.notes.setdefault("tdm_refused_inside_example", rec["refused"])
            continue
        cases.append({"template": TEMPLATE, "compiled": rec["compiled"], "perm": rec["perm"], "bins": rec["bins"], "maxbins": rec["maxbins"]})
        owners.append((f, det, rec))
    verdicts = tracecases.validate(chk, "TraceDevice", cases, "tdmdev", chunk=800)
    for k, (f, det, rec) in enumerate(owners):
        v = verdicts[k]["verdict"]
        if v == "accepted":
            stats["accepted"] += 1
        else:
            chk.violation(v, f, dict(det, compiled=[(c["name"], c["modes"], c["p"][:8]) for c in rec["compiled"]]))
    chk.notes["tdm_single_loop"] = stats
    if stats["accepted"] == 0:
        raise common.MachineryError("vacuous: no single-loop time-domain program was accepted")
