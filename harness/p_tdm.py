"""C13: a time-domain program means its explicit loop.  TLC (MC_TDM.tla) proves on the model that register-shifting and
space unrolling act on the same pulses with the same parameters and flags as the explicit loop, and emits (a) the expected
circuit after every history of unroll / space_unroll / roll calls, (b) the exact joint state of all pulses with the
measurements withheld, (c) the chain of conditional Born laws under forced outcomes.  The harness executes every history on
TDMProgram, projects the circuit after each, runs the program with the generator intercepted and compares Born chain, final
window state and the (shot, band, bin) arrangement of the samples; the hand-written explicit loop is run as well."""
import json
import traceback

import numpy as np

from . import common
from .lattice import fmt_p

_CFG = {}
EPS2 = 0.0002 ** 2
TKINDS = {"Sgate": ["sq", "angle"], "Dgate": ["real", "angle"], "Xgate": ["real"], "Zgate": ["real"], "CZgate": ["real"], "BSgate": ["angle", "angle"], "Rgate": ["angle"], "MeasureHomodyne": ["angle"]}


def _build(static, shift="default"):
    import strawberryfields as sf
    from strawberryfields import ops
    from . import sfx
    bands = static["bands"]
    prog = sf.TDMProgram(N=bands if len(bands) > 1 else bands[0])
    arrays = [[sfx.to_float("angle", v) for v in arr] for arr in static["arrays"]]
    na = len(arrays)
    arrays += [[sfx.to_float("real", v) for v in arr] for arr in static.get("rarrays", [])]
    with prog.context(*arrays, shift=shift) as (p, q):
        for c in static["bin"]:
            args = []
            for kind, src in zip(TKINDS[c["name"]], c["e"]):
                args.append(sfx.to_float(kind, src[1]) if src[0] == "c" else p[src[1] - 1] if src[0] == "p" else p[na + src[1] - 1])
            op = getattr(ops, c["name"])(*args)
            if c["dag"]:
                op = op.H
            op | tuple(q[i] for i in c["pos"])
    return prog


def _intshift_case(arg):
    """worker: modes of the circuit unrolled with an integer shift (one shot)"""
    static, sh = arg
    try:
        prog = _build(static, sh)
        prog.unroll(shots=1)
        return {"ok": True, "modes": [[r.ind for r in cmd.reg] for cmd in prog.circuit]}
    except Exception as e:  # noqa
        return {"ok": False, "err": type(e).__name__, "msg": str(e)[:200]}


def _project(circuit):
    from . import absproj
    out = []
    for cmd in circuit:
        name = type(cmd.op).__name__
        try:
            ps = [absproj.recover(k, x) for k, x in zip(TKINDS[name], cmd.op.p)]
        except Exception as e:  # noqa
            ps = "unrecoverable: %s" % e
        out.append({"name": name, "p": ps, "dag": bool(getattr(cmd.op, "dagger", False)), "modes": [r.ind for r in cmd.reg]})
    return out


def _hist_case(arg):
    static, h, shift = arg
    out = {"ok": True}
    try:
        prog = _build(static, shift)
        ntot = sum(static["bands"])
        orig = _project(prog.circuit)
        err = "none"
        for c in h["calls"]:
            err = "none"
            try:
                if c["c"] == "unroll":
                    prog.unroll(shots=c["s"])
                elif c["c"] == "space_unroll":
                    prog.space_unroll(shots=c["s"])
                else:
                    prog.roll()
            except ValueError:
                err = "ValueError"
            except Exception as e:  # noqa
                err = type(e).__name__ + ": " + str(e)[:120]
        out["err"] = err
        out["circuit"] = _project(prog.circuit)
        out["orig"] = orig
        out["register"] = [r.ind for r in prog.register]
        out["ntot"] = ntot
        out["is_unrolled"] = bool(prog.is_unrolled)
    except Exception as e:  # noqa
        out = {"ok": False, "err": type(e).__name__, "msg": str(e)[:300], "tb": traceback.format_exc()[-1000:]}
    return out


def _run_case(arg):
    """runs with forced outcomes / withheld measurements"""
    import strawberryfields as sf
    from strawberryfields import ops
    from . import sfx
    static, mode, shots, prehist = arg
    out = {"ok": True, "mode": mode, "shots": shots, "prehist": prehist}
    try:
        chain = static["chain"][shots - 1]["chain"]
        calls = []

        def mvn(mean, cov, size=None, **kw):
            i = len(calls)
            calls.append((float(mean[0]), float(cov[0][0]) - EPS2))
            x = float(sfx.fr(chain[i]["x"])) if i < len(chain) else 0.0
            return np.array([[x, float(mean[1])]] * (size or 1))
        if mode == "explicit":
            n = static["npulses"][shots - 1]
            prog = sf.Program(n)
            with prog.context as q:
                for e in static["explicit"][shots - 1]:
                    if e["name"] == "MeasureHomodyne":
                        ops.MeasureHomodyne(sfx.to_float("angle", e["p"][0])) | q[e["modes"][0]]
                    else:
                        sfx.mk_op({"name": e["name"], "p": e["p"], "dag": e["dag"], "modes": e["modes"]}) | tuple(q[m] for m in e["modes"])
            old = np.random.multivariate_normal
            np.random.multivariate_normal = mvn
            try:
                res = sf.Engine("gaussian").run(prog)
            finally:
                np.random.multivariate_normal = old
            out["born"] = calls
            out["proj"] = _clean(sfx.project_state(res.state, "gaussian"))
            return out
        if mode == "explicit_nomeas":
            n = static["npulses"][0]
            prog = sf.Program(n)
            with prog.context as q:
                for e in static["explicit"][0]:
                    if e["name"] != "MeasureHomodyne":
                        sfx.mk_op({"name": e["name"], "p": e["p"], "dag": e["dag"], "modes": e["modes"]}) | tuple(q[m] for m in e["modes"])
            res = sf.Engine("gaussian").run(prog)
            out["proj"] = _clean(sfx.project_state(res.state, "gaussian"))
            return out
        prog = _build(static)
        for c in prehist:
            getattr(prog, c[0])(**({"shots": c[1]} if c[0] != "roll" else {}))
        eng = sf.Engine("gaussian")
        if mode == "shift":
            old = np.random.multivariate_normal
            np.random.multivariate_normal = mvn
            try:
                res = eng.run(prog, shots=shots)
            finally:
                np.random.multivariate_normal = old
            out["born"] = calls
            out["samples"] = np.asarray(res.samples).tolist()
            out["samples_dict"] = {int(k): np.asarray(v).tolist() for k, v in res.samples_dict.items()}
            out["proj"] = _clean(sfx.project_state(res.state, "gaussian"))
            out["rolled_after"] = not prog.is_unrolled
        elif mode == "space_nomeas":
            res = eng.run(prog, space_unroll=True, shots=None)
            out["proj"] = _clean(sfx.project_state(res.state, "gaussian"))
            out["nmodes"] = int(res.state.num_modes)
        elif mode == "space_sampled":
            old = np.random.multivariate_normal
            np.random.multivariate_normal = mvn
            try:
                res = eng.run(prog, space_unroll=True, shots=shots)
            finally:
                np.random.multivariate_normal = old
            out["born"] = calls
            out["samples"] = np.asarray(res.samples).tolist()
    except Exception as e:  # noqa
        out.update(ok=False, err=type(e).__name__, msg=str(e)[:300], tb=traceback.format_exc()[-1000:])
    return out


def _clean(p):
    for k in ("mu_c", "V_c", "weights"):
        p.pop(k, None)
    return p


def cshort(circ):
    return " ; ".join("%s%s%s|%s" % (c["name"], ".H" if c["dag"] else "", fmt_p(c["p"]) if isinstance(c["p"], list) else "(?)", ",".join(map(str, c["modes"])))
                      for c in circ[:12]) + (" ..." if len(circ) > 12 else "")


def c13(chk):
    from . import sfx_cmp as sc
    tier = chk.tier
    chk.rule = ("Templates: single band N=2, N=3 (incl. daggered gates and a constant-parameter gate), two bands [2,2] with a cross-band "
                "gate; T = 3-4 bins; lattice parameter arrays. TLC enumerates every history of unroll(1|2) / space_unroll(1) / roll up to "
                "3 calls and emits the expected circuit; the harness executes each on TDMProgram and compares circuit (operation, exact "
                "parameters, dagger, register indices), register and error; runs with forced outcomes (shots 1, 2; fresh, after "
                "unroll, after roll) compare the conditional Born law at every measurement, final window state and the samples array "
                "entry-wise; space-unrolled run with measurements withheld and the hand-written explicit loop are compared with the exact "
                "joint state. Non-trivial = every history with >= 1 call and every run.")
    chk.assumptions = ["shift = default (per-band rotation) for the meaning of a program; integer shifts 1..3 (not larger than the register) are checked "
                       "against the documented rule (whole register rotates by the step after every bin; IntShiftOneIsDefault ties it to the default for one band)",
                       "Gaussian simulator; homodyne comparisons at 1e-6/1e-5 (finite squeezing eps)"]
    templates = ([("n2", 3), ("n3", 4), ("n3b", 3), ("b22", 3), ("b23", 4), ("b352", 2), ("n2x", 3), ("b12r", 4)] if tier == "quick" else
                 [("n2", 3), ("n2", 5), ("n3", 4), ("n3", 6), ("n3b", 3), ("n3b", 5), ("b22", 3), ("b22", 4), ("b23", 4), ("b23", 5), ("b352", 3), ("n2x", 3), ("n2x", 5), ("b12r", 4), ("b12r", 5)])
    for tid, T in templates:
        r = chk.tlc("MC_TDM", constants={"TemplateId": tid, "T": T, "MaxShots": 1 if tid == "b352" else 2, "HistDepth": 3, "EMIT": True},
                    invariants=["RollRestores", "CacheCoherent", "MeansLoop", "IntShiftOneIsDefault", "EmitHist", "EmitStatic"])
        static = [j for j in r.json if j["kind"] == "static"][0]
        hists = [j for j in r.json if j["kind"] == "hist"]
        single = len(static["bands"]) == 1
        # integer shifts: the whole register rotates by the step after every bin (MC_TDM.UnrolledInt)
        for sh, o in zip((1, 2, 3), common.pmap(_intshift_case, [(static, sh) for sh in (1, 2, 3)], chunksize=1)):
            if sh > sum(static["bands"]):
                continue        # a step larger than the register is outside the modelled range (shift_by does not wrap it: Appendix C)
            chk.traces += 1
            chk.count(key=(tid, T, "intshift", sh), nontrivial=True)
            fi = {"template": tid, "shift": sh, "form": "unrolled", "bands": len(static["bands"])}
            if not o["ok"]:
                chk.violation("UnexpectedError", dict(fi, error=o["err"]), {"template": tid, "T": T, "msg": o["msg"]})
            elif o["modes"] != [list(m) for m in static["intshift"][sh - 1]]:
                chk.violation("IntegerShiftRegister", fi, {"template": tid, "T": T, "got": o["modes"], "expected": static["intshift"][sh - 1]})
        hcases = [(static, h, "default") for h in hists] + ([(static, h, 1) for h in hists] if single else [])
        res = common.pmap(_hist_case, hcases, chunksize=4)
        f0 = {"template": tid}
        for (_, h, shift), o in zip(hcases, res):
            chk.traces += 1
            hs = " ; ".join("%s(%s)" % (c["c"], c["s"]) if c["c"] != "roll" else "roll" for c in h["calls"])
            chk.count(key=(tid, T, hs, shift), nontrivial=len(h["calls"]) > 0)
            kinds = [c["c"] for c in h["calls"]]
            f = dict(f0, form=h["form"], shots=h["shots"], ncalls=len(kinds), shift=shift, space_then_again="space_unroll" in kinds[:-1],
                     multi_shot_space=any(c["c"] == "space_unroll" and c["s"] > 1 for c in h["calls"]))
            det = {"template": tid, "T": T, "history": hs, "shift": shift}
            if not o["ok"]:
                chk.violation("UnexpectedError", dict(f, error=o["err"]), dict(det, msg=o["msg"], tb=o.get("tb")))
                continue
            if o["err"] != h["err"]:
                chk.violation("WrongErrorOutcome", dict(f, got=o["err"].split(":")[0]), dict(det, want=h["err"], got=o["err"]))
                continue
            if h["err"] != "none":
                continue
            if h["form"] == "rolled":
                if o["circuit"] != o["orig"] or o["register"] != list(range(o["ntot"])) or o["is_unrolled"]:
                    chk.violation("RollRestores", f, dict(det, circuit=cshort(o["circuit"]), original=cshort(o["orig"]), register=o["register"]))
            else:
                want = [{"name": e["name"], "p": e["p"], "dag": e["dag"], "modes": e["modes"]} for e in h["circuit"]]
                if o["circuit"] != want:
                    k = next((i for i, (a, b) in enumerate(zip(o["circuit"], want)) if a != b), min(len(want), len(o["circuit"])))
                    flags = k < min(len(want), len(o["circuit"])) and o["circuit"][k]["dag"] != want[k]["dag"]
                    chk.violation("UnrollMeansLoop" if h["form"] == "unrolled" else "SpaceMeansLoop", dict(f, flag_dropped=bool(flags)),
                                  dict(det, first_difference=k, got=o["circuit"][k] if k < len(o["circuit"]) else None,
                                       want=want[k] if k < len(want) else None, got_len=len(o["circuit"]), want_len=len(want)))
        # runs
        single = len(static["bands"]) == 1
        runs = [("explicit_nomeas", 1, []), ("explicit", 1, []), ("explicit", 2, []), ("shift", 1, []), ("shift", 2, []),
                ("shift", 1, [("unroll", 2)]), ("shift", 2, [("unroll", 1), ("roll", 0)]), ("shift", 1, [("unroll", 1)])]
        if single:
            runs += [("space_nomeas", 1, []), ("space_nomeas", 1, [("space_unroll", 1)]), ("space_nomeas", 1, [("space_unroll", 1), ("roll", 0)]),
                     ("space_nomeas", 1, [("unroll", 1)]), ("space_sampled", 1, []), ("shift", 1, [("space_unroll", 1), ("roll", 0)])]
        runs = [x for x in runs if x[1] <= len(static["chain"])]          # shots the model was asked for (MaxShots)
        rr = common.pmap(_run_case, [(static, m, s, ph) for (m, s, ph) in runs], chunksize=1)
        joint = static["joint"]
        for o in rr:
            chk.traces += 1
            ph = " ; ".join("%s(%s)" % tuple(c) for c in o["prehist"])
            chk.count(key=(tid, T, o["mode"], o["shots"], ph), nontrivial=True)
            f = dict(f0, run=o["mode"], shots=o["shots"], prehist=ph)
            det = {"template": tid, "T": T, "run": o["mode"], "shots": o["shots"], "prehist": ph}
            if not o["ok"]:
                chk.violation("UnexpectedError", dict(f, error=o["err"]), dict(det, msg=o["msg"], tb=o.get("tb")))
                continue
            ch = static["chain"][o["shots"] - 1]
            if "born" in o:
                want = [(float(sc.fr(c["bmean"])), float(sc.fr(c["bvar"]))) for c in ch["chain"]]
                if len(o["born"]) != len(want):
                    chk.violation("BornChain", f, dict(det, info="%d measurements sampled, %d expected" % (len(o["born"]), len(want))))
                else:
                    for i, (g, w) in enumerate(zip(o["born"], want)):
                        if abs(g[0] - w[0]) > 1e-6 * (1 + abs(w[0])) or abs(g[1] - w[1]) > 1e-6 * (1 + w[1]):
                            chk.violation("BornChain", f, dict(det, measurement=i, got=g, want=w))
                            break
            if o["mode"] in ("explicit_nomeas",):
                v, worst, info = sc.compare_state(joint, o["proj"], "gaussian")
                if v == "bad":
                    chk.violation("ExplicitLoopState", f, dict(det, info=info))
            if o["mode"] == "explicit":
                v, worst, info = sc.compare_state(ch["st"], o["proj"], "gaussian", coarse=True)
                if v == "bad":
                    chk.violation("ExplicitLoopState", f, dict(det, info=info))
            if o["mode"] == "space_nomeas":
                mu, V = sc.exact_arrays(joint)
                n = len(joint["modes"])
                keep = list(range(T))
                idx = keep + [i + n for i in keep]
                if o["nmodes"] != T:
                    chk.violation("SpaceUnrolledState", f, dict(det, info="state has %d modes, %d measured pulses expected" % (o["nmodes"], T)))
                elif np.max(np.abs(o["proj"]["mu"] - mu[idx])) > 1e-9 or np.max(np.abs(o["proj"]["V"] - V[np.ix_(idx, idx)])) > 1e-9:
                    chk.violation("SpaceUnrolledState", f, dict(det, info="joint state of the measured pulses differs from the explicit loop"))
            if o["mode"] in ("shift", "space_sampled") and "samples" in o:
                nb = len(static["bands"])
                want = np.zeros((o["shots"], nb, T))
                for c in ch["chain"]:
                    want[c["g"] // T][c["band"] - 1][c["g"] % T] = float(sc.fr(c["x"]))
                got = np.array(o["samples"], dtype=float)
                if got.shape != want.shape or np.max(np.abs(got - want)) > 1e-9:
                    chk.violation("SampleArrangement", f, dict(det, got=np.round(got, 4).tolist() if got.size < 60 else str(got.shape), want=want.tolist()))
                elif o["mode"] == "shift" and "samples_dict" in o:
                    # the dictionary form: key = leading mode of the band, value[shot][bin]
                    offs = [sum(static["bands"][:b]) for b in range(nb)]
                    sd = {int(k): np.array(v, dtype=float) for k, v in o["samples_dict"].items()}
                    bad = sorted(sd) != offs or any(sd[offs[b]].shape != want[:, b, :].shape or np.max(np.abs(sd[offs[b]] - want[:, b, :])) > 1e-9
                                                    for b in range(nb))
                    if bad:
                        chk.violation("SampleDictionary", f, dict(det, keys=sorted(sd), expected_keys=offs))
            if o["mode"] == "shift":
                # final window: register index m holds pulse HeldPulse(m, shots*T); the just-measured index is vacuum
                mu, V = sc.exact_arrays(ch["st"])
                npulse = len(ch["st"]["modes"])
                bands = static["bands"]
                lab = []
                off = 0
                poff = 0
                for b, nbnd in enumerate(bands):
                    per = o["shots"] * T + nbnd - 1
                    for r in range(nbnd):
                        g = o["shots"] * T
                        p = next(x for x in range(g, g + nbnd) if x % nbnd == r)
                        lab.append(poff + p if p < per else None)
                    off += nbnd
                    poff += per
                ntot = sum(bands)
                emu = np.zeros(2 * ntot)
                eV = np.eye(2 * ntot)
                for i, a in enumerate(lab):
                    if a is None:
                        continue
                    emu[i], emu[i + ntot] = mu[a], mu[a + npulse]
                    for j, b2 in enumerate(lab):
                        if b2 is None:
                            continue
                        eV[i, j], eV[i, j + ntot], eV[i + ntot, j], eV[i + ntot, j + ntot] = V[a, b2], V[a, b2 + npulse], V[a + npulse, b2], V[a + npulse, b2 + npulse]
                if o["proj"]["n"] != ntot or np.max(np.abs(o["proj"]["mu"] - emu)) > 1e-5 or np.max(np.abs(o["proj"]["V"] - eV)) > 1e-5:
                    chk.violation("FinalWindowState", f, dict(det, got_mu=np.round(o["proj"]["mu"], 5).tolist(), want_mu=np.round(emu, 5).tolist()))
                if not o["rolled_after"] and not o["prehist"]:
                    chk.violation("RunLeavesUnrolled", f, det)
        chk.sample({"template": tid, "T": T, "bands": static["bands"], "one_bin_circuit": [c["name"] + str(c["pos"]) for c in static["bin"]],
                    "histories": len(hists), "runs": len(runs)})
    chk.exhaustive = True
