"""Batch validation of recorded cases by a TLC trace specification (one verdict line per case)."""
import json
import os
from concurrent.futures import ThreadPoolExecutor

from . import common


def validate(chk, module, cases, label, chunk=4000, keys=None):
    chunks = [cases[i:i + chunk] for i in range(0, len(cases), chunk)]
    verdicts = {}

    def one(ci):
        path = os.path.join(chk.tmp, "%s_%s_%d.json" % (module, label, ci))
        with open(path, "w") as f:
            json.dump([({k: c[k] for k in keys} if keys else c) for c in chunks[ci]], f)
        return ci, common.run_tlc(module, invariants=["Report"], workers=4, env={"CASES_FILE": path}, tmp=chk.tmp)
    with ThreadPoolExecutor(4) as ex:
        for ci, r in ex.map(one, range(len(chunks))):
            chk.states += r.distinct
            chk.transitions += r.generated
            if not r.ok():
                raise common.MachineryError("%s failed: %s\n%s" % (module, r.errors[:3], "\n".join(
                    l for l in r.out.splitlines() if not l.startswith("Loading"))[-1500:]))
            for j in r.json:
                verdicts[ci * chunk + j["tid"] - 1] = j
    chk.tlc_cmds.append("tlc %s CASES_FILE=<%d recorded cases, %d chunks>" % (module, len(cases), len(chunks)))
    if len(verdicts) != len(cases):
        raise common.MachineryError("%s: %d verdicts for %d cases" % (module, len(verdicts), len(cases)))
    return verdicts
