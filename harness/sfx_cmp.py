"""Numerical comparison policy (the only place floats meet the spec); numpy only."""
import math
from fractions import Fraction

import numpy as np


def fr(x):
    return Fraction(int(x[0]), int(x[1]))


def exact_arrays(st):
    mu = np.array([float(fr(x)) for x in st["mu"]])
    V = np.array([[float(fr(x)) for x in r] for r in st["V"]])
    return mu, V


def compare_state(st, proj, cfg, coarse=False):
    """Compare the spec's exact state with a projection.  Returns (verdict, worst, info) with verdict in
    {"ok", "bad", "inconclusive"}."""
    mu, V = exact_arrays(st)
    n = len(st["modes"])
    if proj["n"] != n:
        return "bad", float("inf"), "mode count %d != %d" % (proj["n"], n)
    dmu = float(np.max(np.abs(proj["mu"] - mu))) if n else 0.0
    dV = float(np.max(np.abs(proj["V"] - V))) if n else 0.0
    scale = 1.0 + max(float(np.max(np.abs(mu))) if n else 0, float(np.max(np.abs(V))) if n else 0)
    if coarse:
        # identity-level comparison (after measurements: finite homodyne squeezing eps, renormalised Fock trace)
        tol = (1e-5 if cfg in ("gaussian", "bosonic") else 5e-2) * scale
        if cfg not in ("gaussian", "bosonic"):
            delta = max(0.0, 1.0 - proj["trace"])
            if delta > 1e-3:
                return "inconclusive", max(dmu, dV), "trace deficit %.3g" % delta
            tol = max(tol, 2 * proj["D"] * math.sqrt(delta) + 1e-6)
        if dmu <= tol and dV <= tol:
            return "ok", max(dmu, dV), ""
        return "bad", max(dmu, dV), "dmu=%.3g dV=%.3g tol=%.3g" % (dmu, dV, tol)
    if cfg in ("gaussian", "bosonic"):
        tol = 1e-9 * scale
        if dmu <= tol and dV <= tol:
            return "ok", max(dmu, dV), ""
        return "bad", max(dmu, dV), "dmu=%.3g dV=%.3g tol=%.3g" % (dmu, dV, tol)
    delta = max(0.0, 1.0 - proj["trace"])
    if delta > 1e-3:
        return "inconclusive", max(dmu, dV), "trace deficit %.3g" % delta
    s1 = 5 * math.sqrt(delta) + 1e-6
    s2 = 2 * proj["D"] * math.sqrt(delta) + 1e-6
    if dmu <= s1 and dV <= s2:
        return "ok", max(dmu / s1, dV / s2), ""
    return "bad", max(dmu, dV), "dmu=%.3g (slack %.3g) dV=%.3g (slack %.3g) delta=%.3g" % (dmu, s1, dV, s2, delta)


def physical_defects(proj, cfg):
    """C07 predicates on a projected state; returns list of (clause, value)."""
    bad = []
    n = proj["n"]
    if n == 0:
        return bad
    if cfg in ("gaussian", "bosonic"):
        V = proj["V"]
        if proj.get("sym_defect", 0) > 1e-9:
            bad.append(("CovSymmetric", proj["sym_defect"]))
        Om = np.block([[np.zeros((n, n)), np.eye(n)], [-np.eye(n), np.zeros((n, n))]])
        ev = np.linalg.eigvalsh((V + V.T) / 2 + 1j * Om)
        if ev.min() < -1e-7 * (1 + np.abs(V).max()):
            bad.append(("Uncertainty", float(ev.min())))
        if cfg == "bosonic":
            if abs(proj["wsum"] - 1) > 1e-9:
                bad.append(("WeightsSumToOne", abs(proj["wsum"] - 1)))
            if proj["imag_defect"] > 1e-9:
                bad.append(("RealMoments", proj["imag_defect"]))
    else:
        if proj["trace"] > 1 + 1e-9:
            bad.append(("TraceAtMostOne", proj["trace"]))
        if proj["herm_defect"] > 1e-9:
            bad.append(("Hermitian", proj["herm_defect"]))
    return bad
