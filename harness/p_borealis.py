"""C12, time-domain loop devices (Borealis): the compilation pipeline (Borealis.compile -> update_params ->
_replace_loop_offset_params -> validate_gate_parameters, optionally preceded by tdm.utils.make_phases_compatible) is modelled
as a state machine in MC_Borealis.tla and checked by TLC against the path-phase theory of Borealis.tla; the same instances
(exhaustive for small loops, random on the phase lattice for the real delays 1 / 6 / 36) are compiled by the real code for a
generated device + certificate, and TraceBorealis.tla judges every returned circuit: layout gate for gate, parameters in
range, same photon statistics as the source."""
import json
import math
import random
import traceback

from . import common, tracecases
from .common import Subst

_CFG = {}
PI = math.pi
SMAX = 2.0
BK = 4


def mode_indices(delays):
    N = sum(delays)
    n = [N]
    for d in delays:
        n.append(n[-1] - d)
    return n, N + 1


def layout_text(delays, tm=259):
    n, N = mode_indices(delays)
    L = len(delays)
    names = ["s"]
    for l in range(L):
        names += ["r%d" % l, "bs%d" % l]
    lines = ["name template_borealis", "version 1.0", "target borealis (shots=1)", "type tdm (temporal_modes=%d, copies=1)" % tm, ""]
    for k, nm in enumerate(names):
        lines += ["float array p%d[1, %d] =" % (k, tm), "    {%s}" % nm]
    lines += ["", "Sgate({s}, 0.0) | %d" % n[0]]
    for l in range(L):
        lines.append("Rgate({r%d}) | %d" % (l, n[l]))
        lines.append("BSgate({bs%d}, 1.5707963267948966) | [%d, %d]" % (l, n[l + 1], n[l]))
        lines.append("Rgate({loop%d_phase}) | %d" % (l, n[l]))
    lines.append("MeasureFock() | 0")
    return "\n".join(lines) + "\n"


def layout_abs(delays):
    n, N = mode_indices(delays)
    out = [{"name": "Sgate", "modes": [n[0]], "fixed": [0]}]
    for l in range(len(delays)):
        out.append({"name": "Rgate", "modes": [n[l]], "fixed": []})
        out.append({"name": "BSgate", "modes": [n[l + 1], n[l]], "fixed": [1570796]})
        out.append({"name": "Rgate", "modes": [n[l]], "fixed": []})
    out.append({"name": "MeasureFock", "modes": [0], "fixed": []})
    return out


def device_spec(delays, temporal_max=331):
    n, N = mode_indices(delays)
    gp = {"s": [[0, SMAX]]}
    for l in range(len(delays)):
        gp["r%d" % l] = [[-PI / 2, PI / 2]]
        gp["bs%d" % l] = [[0, PI / 2]]
        gp["loop%d_phase" % l] = [[-PI, PI]]
    return {"target": "borealis", "layout": layout_text(delays), "modes": {"temporal_max": temporal_max, "concurrent": N, "spatial": 1},
            "compiler": ["borealis"], "compiler_default": "borealis", "gate_parameters": gp}


def certificate(theta):
    return {"target": "borealis", "finished_at": "2022-02-03T15:00:59.641616+00:00", "loop_phases": theta, "schmidt_number": 1.333,
            "common_efficiency": 0.55, "loop_efficiencies": [0.9, 0.8, 0.7][:len(theta)],
            "squeezing_parameters_mean": {"low": [0.1], "high": [0.5], "medium": [0.3]}, "relative_channel_efficiencies": []}


def cent(k, M):
    y = k % M
    return y - M if 2 * y > M else y


def _quant(x, M):
    q = float(x) * M / (2 * PI)
    k = round(q)
    if abs(q - k) > 1e-5:
        return None
    return cent(int(k), M)


def _run_one(it):
    """it: M, T, delays, sq (x1000), bs (index on BK lattice), phi (lattice), theta (lattice), user (value or None per loop),
    prepared (bool), defect"""
    import logging
    import numpy as np
    import strawberryfields as sf
    from strawberryfields import ops
    from strawberryfields.compilers import Borealis
    from strawberryfields.program_utils import CircuitError
    from strawberryfields.tdm import utils as tu
    try:
        M, T, delays = it["M"], it["T"], list(it["delays"])
        L = len(delays)
        u = 2 * PI / M
        n, N = mode_indices(delays)
        tmax = it.get("temporal_max", 331)
        dev = sf.Device(spec=device_spec(delays, tmax), cert=certificate([cent(t, M) * u for t in it["theta"]]))
        phi = [[x * u for x in row] for row in it["phi"]]
        warned_prepare = False
        rec = {}

        class Grab(logging.Handler):
            def __init__(self):
                super().__init__(level=logging.WARNING)
                self.msgs = []

            def emit(self, record):
                self.msgs.append(record.getMessage())
        grab = Grab()
        loggers = [logging.getLogger("strawberryfields.compilers.tdm"), logging.getLogger("strawberryfields.tdm.utils")]
        saved = [(lg, list(lg.handlers), lg.propagate) for lg in loggers]
        for lg in loggers:
            lg.handlers = [grab]
            lg.propagate = False
        try:
            if it.get("prepared"):
                ga = {"Sgate": [s / 1000.0 for s in it["sq"]],
                      "loops": {l: {"Rgate": list(phi[l]), "BSgate": [k * PI / 2 / BK for k in it["bs"][l]]} for l in range(L)}}
                out = tu.make_phases_compatible(ga, dev, delays=delays)
                phi = [list(out["loops"][l]["Rgate"]) for l in range(L)]
                warned_prepare = bool(grab.msgs)
                grab.msgs = []
                # the prepared arguments are the source program of the compilation
                sphi = [[_quant(x, M) for x in row] for row in phi]
                if any(x is None for row in sphi for x in row):
                    return {"ok": True, "res": {"offlattice": "prepared"}}
            else:
                sphi = [[cent(x, M) for x in row] for row in it["phi"]]
            rec["sphi"] = sphi
            rec["warned_prepare"] = warned_prepare
            args = [[s / 1000.0 for s in it["sq"]]]
            for l in range(L):
                args += [phi[l], [k * PI / 2 / BK for k in it["bs"][l]]]
            defect = it.get("defect", "none")
            if defect == "s_too_big":
                args[0] = [2.5] + args[0][1:]
            if defect == "bs_out":
                args[2] = [3 * PI / 4] + args[2][1:]
            if defect == "phase_out_user":      # all offsets user-owned and a phase outside the modulators' range
                args[3] = [2.0] + args[3][1:]
            prog = sf.TDMProgram(N)
            with prog.context(*args) as (p, q):
                ops.Sgate(p[0]) | q[n[0]]
                for l in range(L):
                    if defect == "wrong_gate" and l == 1:
                        ops.Rgate(0.3) | q[n[l + 1]]
                    ops.Rgate(p[2 * l + 1]) | q[n[l]]
                    if defect == "wrong_mode" and l == L - 1:
                        ops.BSgate(p[2 * l + 2], PI / 2) | (q[n[l + 1] + 1], q[n[l]])
                    elif defect == "bs_phase" and l == 0:
                        ops.BSgate(p[2 * l + 2], 0.3) | (q[n[l + 1]], q[n[l]])
                    else:
                        ops.BSgate(p[2 * l + 2], PI / 2) | (q[n[l + 1]], q[n[l]])
                    if it["user"][l] is not None:
                        ops.Rgate(cent(it["user"][l], M) * u) | q[n[l]]
                ops.MeasureFock() | q[0]
            cls = type("BorealisD", (Borealis,), {"delays": delays, "_layout": None, "_graph": None})
            Borealis.reset_circuit()
            try:
                comp = prog.compile(device=dev, compiler=cls() if delays != [1, 6, 36] else None)
            except (CircuitError, ValueError) as e:
                rec["refused"] = "%s: %s" % (type(e).__name__, str(e)[:100])
                return {"ok": True, "res": rec}
            rec["warned"] = any("beyond the range" in m for m in grab.msgs)
        finally:
            for lg, hs, pr in saved:
                lg.handlers = hs
                lg.propagate = pr
        # projection of the compiled program
        opsl, cphi, cbs, coff, csq = [], [], [], [], None
        off = False
        pars = comp.tdm_params

        def arr(x):
            nm = getattr(x, "name", None)
            if nm is not None and nm.startswith("p") and nm[1:].isdigit():
                return list(pars[int(nm[1:])])
            return None
        for cmd in comp.circuit:
            name = type(cmd.op).__name__
            modes = [r.ind for r in cmd.reg]
            fixed = []
            if name == "Sgate":
                a = arr(cmd.op.p[0])
                csq = [int(round(float(x) * 1000)) for x in a] if a is not None else [int(round(float(cmd.op.p[0]) * 1000))] * T
                fixed = [int(round(float(cmd.op.p[1]) * 1e6))]
            elif name == "BSgate":
                a = arr(cmd.op.p[0])
                vals = a if a is not None else [float(cmd.op.p[0])] * T
                cbs.append([int(round(float(x) * BK / (PI / 2))) if abs(float(x) * BK / (PI / 2) - round(float(x) * BK / (PI / 2))) < 1e-6 else -1 for x in vals])
                fixed = [int(round(float(cmd.op.p[1]) * 1e6))]
            elif name == "Rgate":
                a = arr(cmd.op.p[0])
                if a is not None:
                    qs = [_quant(x, M) for x in a]
                    off = off or any(x is None for x in qs)
                    cphi.append(qs)
                else:
                    qv = _quant(float(cmd.op.p[0]), M)
                    off = off or qv is None
                    coff.append(qv)
            opsl.append({"name": name, "modes": modes, "fixed": fixed})
        rec.update(ops=opsl, cphi=cphi, cbs=cbs, coff=coff, csq=csq, offlattice="compiled" if off else None)
        rec["raw"] = {"params": [[round(float(x), 6) for x in row][:12] for row in pars][:8]}
        return {"ok": True, "res": rec}
    except Exception as e:  # noqa
        return {"ok": False, "err": type(e).__name__, "msg": str(e)[:300], "tb": traceback.format_exc()[-1200:]}


def _instances_from_model(js):
    """MC_Borealis behaviours (done states) -> compile instances"""
    out = []
    for j in js:
        M, T = j["M"], j["T"]
        L = len(j["delays"])
        clsmap = {"T": 0, "R": BK, "M": 1}
        out.append({"M": M, "T": T, "delays": j["delays"], "sq": [500] * T,
                    "bs": [[clsmap[c] for c in j["cls"][l]] for l in range(L)],
                    "phi": j["src"] if not j["prepared"] else j["raw_src"], "theta": j["theta"],
                    "user": [j["userval"] if j["user"][l] else None for l in range(L)], "prepared": j["prepared"],
                    "model_phi": j["model_phi"], "model_off": j["model_off"], "model_warned": j["model_warned"], "origin": "MC_Borealis"})
    return out


def _random_instances(rnd, count, real_only=False):
    out = []
    for k in range(count):
        delays = [1, 6, 36] if real_only or k % 3 else rnd.choice([[1, 2, 3], [1, 3, 7], [2, 3], [1, 6, 36]])
        L = len(delays)
        M = rnd.choice([10, 14, 30, 1000002])
        T = rnd.choice([3, 8, 14, 40, 50, 80] if delays == [1, 6, 36] else [4, 7, 12, 20])
        thmode = rnd.choice(["generic", "generic", "zero_after", "small", "allzero"])
        theta = [rnd.randrange(M) for _ in range(L)]
        if thmode == "zero_after":
            theta[rnd.randrange(1, L)] = 0
        elif thmode == "small":
            theta = [rnd.choice([0, 1, M - 1]) for _ in range(L)]
        elif thmode == "allzero":
            theta = [0] * L
        q = M // 4
        phmode = rnd.choice(["range", "zero", "narrow"])
        phi = [[(rnd.randint(-q, q) if phmode == "range" else 0 if phmode == "zero" else rnd.randint(-1, 1)) for _ in range(T)] for _ in range(L)]
        bsmode = rnd.choice(["mixing", "open", "random", "mixing"])
        bs = []
        for l in range(L):
            if bsmode == "mixing":
                bs.append([rnd.choice([1, 2, 3]) for _ in range(T)])
            elif bsmode == "open":
                bs.append([0 if j < delays[l] else rnd.choice([1, 2, 3]) for j in range(T)])
            else:
                bs.append([rnd.choice([0, 1, 2, 3, BK]) for _ in range(T)])
        sq = [rnd.choice([500, 500, 300, 1000, 0]) for _ in range(T)] if rnd.random() < 0.5 else [500] * T
        um = rnd.choice(["none", "none", "some", "all"])
        user = [None] * L
        if um == "some":
            user = [rnd.randrange(M) if rnd.random() < 0.5 else None for _ in range(L)]
        elif um == "all":
            user = [rnd.randrange(M) for _ in range(L)]
        prepared = um == "none" and rnd.random() < 0.4
        out.append({"M": M, "T": T, "delays": delays, "sq": sq, "bs": bs, "phi": phi, "theta": theta, "user": user, "prepared": prepared,
                    "origin": "random"})
    return out


def borealis(chk):
    tier = chk.tier
    rnd = random.Random(1000 + chk.seed)
    chk.assumptions.append(
        "time-domain part: Borealis-type devices generated by the harness (layout text, ranges, certificate) with loop delays (1,2,3) / "
        "(1,3,7) / (2,3) through a subclass that only overrides Borealis.delays, and the real delays (1,6,36); all phases on a lattice "
        "2 pi / M with M = 2 mod 4 (pi on the lattice, the modulator limit pi/2 not), squeezing in {0, .3, .5, 1}, beamsplitter angles "
        "k pi/8; statistics judged by the path-phase criterion of Borealis.tla (exact for beamsplitters in general position; "
        "theta = 0 and pi/2 are handled as classes); TDM / TD2 single-loop compilers and add_loss are not covered")
    # 1. the pipeline model itself
    plans = ([dict(M=10, T=3, Delays="D12", Thetas=[0, 1, 3], PhiVals=[0, 1], ClsMode="mixing"),
              dict(M=10, T=4, Delays="D123", Thetas=[0, 3], PhiVals=[0, 2], ClsMode="open", Sparse=True)] if tier == "quick" else
             [dict(M=10, T=4, Delays="D123", Thetas=[0, 1, 3], PhiVals=[0, 1], ClsMode="mixing"),
              dict(M=10, T=4, Delays="D123", Thetas=[0, 1, 3], PhiVals=[0, 2], ClsMode="mixed"),
              dict(M=14, T=5, Delays="D12", Thetas=[0, 1, 5], PhiVals=[0, 1, 3], ClsMode="open"),
              dict(M=10, T=6, Delays="D124", Thetas=[0, 3], PhiVals=[0, 1], ClsMode="mixing", Sparse=True)])
    emitted = []
    for k, pl in enumerate(plans):
        sparse = pl.pop("Sparse", False)
        consts = dict(pl, Delays=Subst(pl["Delays"]), UserVal=2, UserRule="rereference", WithPrepare=True, EMIT=(k == len(plans) - 1 or sparse),
                      SparseSrc=sparse)
        r = chk.tlc("MC_Borealis", constants=consts, invariants=["InModulatorRange", "PreservesStatistics", "PreparedNeverForced", "EmitInv"],
                    timeout=3000, use_override=False)
        emitted += r.json
    # 1b. unbounded: the local gauge conditions of the compensation rule for ALL time bins, delays, loop phases and gate phases
    #     (Apalache, symbolic integers; TwoMoreRounds is the negative control)
    for inv, want in (("OneMoreRound", True), ("PortsAgree", True), ("TwoMoreRounds", False)):
        holds, _ = common.run_apalache("BorealisGauge", inv, tmp=chk.tmp)
        chk.tlc_cmds.append("apalache-mc check --inv=%s --length=0 BorealisGauge.tla -> %s" % (inv, "holds" if holds else "violated"))
        if holds != want:
            raise common.MachineryError("BorealisGauge.%s: Apalache says %s, expected %s" % (inv, holds, want))
    # 2. the same instances through the real compiler
    items = _instances_from_model(emitted)
    if tier == "quick":
        items = [it for k, it in enumerate(items) if k % 6 == chk.seed % 6]
    nrand = 160 if tier == "quick" else 3000
    items += _random_instances(rnd, nrand)
    # refusals: programs outside the device's promise (any outcome but a conforming circuit is fine)
    for d in ("s_too_big", "bs_out", "wrong_gate", "wrong_mode", "bs_phase", "too_long", "phase_out_user"):
        for base in _random_instances(rnd, 3 if tier == "quick" else 12, real_only=False):
            base = dict(base, defect=d, prepared=False, origin="defect")
            if d == "too_long":
                base["temporal_max"] = base["T"] - 1
            if d == "phase_out_user":
                base["user"] = [1] * len(base["delays"])
            items.append(base)
    res = common.pmap(_run_one, items)
    cases, owners = [], []
    stats = {"accepted": 0, "refused": 0, "offlattice": 0, "model_rule_agrees": 0, "model_rule_differs": 0}
    for it, o in zip(items, res):
        f = {"compiler": "borealis", "delays": "-".join(map(str, it["delays"])), "user_offsets": sum(u is not None for u in it["user"]),
             "prepared": bool(it["prepared"]), "defect": it.get("defect", "none"), "origin": it["origin"]}
        det = {"instance": {k: it[k] for k in ("M", "T", "delays", "theta", "user", "prepared")}, "phi": [row[:12] for row in it["phi"]],
               "bs": [row[:12] for row in it["bs"]], "sq": it["sq"][:12]}
        chk.traces += 1
        chk.count(key=json.dumps([it[k] for k in ("M", "T", "delays", "theta", "user", "prepared", "phi", "bs", "sq")] + [it.get("defect")]),
                  nontrivial=any(it["theta"]) and it["T"] > min(it["delays"]))
        if not o["ok"]:
            chk.violation("UnexpectedError", dict(f, error=o["err"]), dict(det, msg=o["msg"], tb=o["tb"]))
            continue
        rec = o["res"]
        if "refused" in rec:
            stats["refused"] += 1
            if it.get("defect", "none") == "none":
                # refusing a program that follows the layout with in-range arguments is not an alarm for C12, but count it
                chk.notes["refused_inside_promise"] = chk.notes.get("refused_inside_promise", 0) + 1
                chk.notes.setdefault("refused_example", rec["refused"])
            continue
        if rec.get("offlattice"):
            stats["offlattice"] += 1
            chk.inconclusive += 1
            continue
        L = len(it["delays"])
        f["warned"] = bool(rec["warned"])
        case = {"M": it["M"], "T": it["T"], "delays": it["delays"], "BK": BK, "smax": int(SMAX * 1000),
                "sq": it["sq"], "csq": rec["csq"] or [], "bs": it["bs"], "cbs": rec["cbs"],
                "sphi": rec["sphi"], "cphi": rec["cphi"], "soff": [cent(u, it["M"]) if u is not None else 0 for u in it["user"]],
                "coff": rec["coff"] if len(rec["coff"]) == L else [0] * L,
                "layout": layout_abs(it["delays"]), "ops": rec["ops"], "warned": bool(rec["warned"]), "strict": bool(it["prepared"])}
        if it.get("defect", "none") != "none":
            # a circuit was returned for a program outside the promise: it must still pass the judge on layout / ranges; the
            # source the statistics are compared with is the (possibly out-of-range) program as written
            case["sq"] = case["csq"] if it["defect"] == "s_too_big" else case["sq"]
            case["bs"] = case["cbs"] if it["defect"] == "bs_out" else case["bs"]
        cases.append(case)
        owners.append((it, f, det, rec))
        if "model_phi" in it:
            same = [[cent(x, it["M"]) for x in row] for row in it["model_phi"]] == rec["cphi"] and \
                   [cent(x, it["M"]) for x in it["model_off"]] == rec["coff"] and bool(it["model_warned"]) == bool(rec["warned"])
            stats["model_rule_agrees" if same else "model_rule_differs"] += 1
    verdicts = tracecases.validate(chk, "TraceBorealis", cases, "bor", chunk=400)
    for k, (it, f, det, rec) in enumerate(owners):
        v = verdicts[k]["verdict"]
        if v == "accepted":
            stats["accepted"] += 1
        else:
            chk.violation(v, f, dict(det, compiled_phi=[row[:12] for row in rec["cphi"]], compiled_off=rec["coff"], warned=rec["warned"],
                                     ops=[(o["name"], o["modes"]) for o in rec["ops"]]))
    chk.notes["borealis"] = stats
    if stats["accepted"] == 0:
        raise common.MachineryError("vacuous: no Borealis compilation was accepted")
    if any("model_phi" in it for it in items) and stats["model_rule_agrees"] == 0:
        chk.notes["borealis_model_rule"] = "the code never produced the phases of the modelled rule (informational)"
    chk.sample({"borealis_instance": {k: items[0][k] for k in ("M", "T", "delays", "theta", "user", "prepared")}, "stats": stats})
