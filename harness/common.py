"""Shared machinery: TLC runner, evidence writer, findings/violation reporting, process pool.

Exit codes of a check: 0 = property held on everything explored (KNOWN-FINDING lines allowed),
1 = at least one VIOLATION line, 2 = machinery failure (never used to hide a violation).
"""
import hashlib
import json
import multiprocessing as mp
import os
import re
import shutil
import subprocess
import sys
import tempfile
import time
from fractions import Fraction

ROOT = os.path.dirname(os.path.dirname(os.path.abspath(__file__)))
# evidence and replays of the registered checks live under /verif; seed experiments (tools_seedall.py) redirect them
OUT = os.environ.get("VERIF_OUT", ROOT)
SPEC = os.path.join(ROOT, "spec")
OVR = os.path.join(SPEC, "overrides")
TLA_JAR = "/opt/veriftools/tla/tla2tools.jar"
CM_JAR = "/opt/veriftools/tla/CommunityModules-deps.jar"
NPROC = int(os.environ.get("VERIF_NPROC", "16"))


class MachineryError(Exception):
    pass


def ensure_overrides():
    """(Re)compile spec/overrides/*.java when the class file is missing or older than its source."""
    for f in os.listdir(OVR):
        if not f.endswith(".java"):
            continue
        src = os.path.join(OVR, f)
        cls = src[:-5] + ".class"
        if not os.path.exists(cls) or os.path.getmtime(cls) < os.path.getmtime(src):
            r = subprocess.run(["javac", "-cp", TLA_JAR, "-d", OVR, src], capture_output=True, text=True)
            if r.returncode != 0:
                raise MachineryError("javac failed: " + r.stderr)


class Subst(str):
    """constant given by a definition of the model module: `K <- Name` in the cfg (tuples / negative numbers cannot be written in a cfg)"""


def cfg_value(v):
    if isinstance(v, bool):
        return "TRUE" if v else "FALSE"
    if isinstance(v, int):
        return str(v)
    if isinstance(v, str):
        return '"%s"' % v
    if isinstance(v, (list, tuple, set, frozenset)):
        return "{" + ", ".join(cfg_value(x) for x in v) + "}"
    raise TypeError(v)


def run_apalache(module, inv, length=0, timeout=600, tmp=None):
    """apalache-mc check --inv=<inv> --length=<length> on spec/<module>.tla; returns (holds: bool, text)"""
    import shutil
    exe = shutil.which("apalache-mc")
    if exe is None:
        raise MachineryError("apalache-mc not found")
    own = tmp is None
    tmp = tmp or tempfile.mkdtemp(prefix="verif-apa-")
    try:
        p = subprocess.run([exe, "check", "--inv=%s" % inv, "--length=%d" % length, "--out-dir=%s" % os.path.join(tmp, "apa-out"),
                            os.path.join(SPEC, module + ".tla")], cwd=tmp, capture_output=True, text=True, timeout=timeout)
        text = p.stdout + p.stderr
        if "The outcome is: NoError" in text:
            return True, text
        if "The outcome is: Error" in text and "violated" in text:
            return False, text
        raise MachineryError("apalache failed on %s/%s:\n%s" % (module, inv, text[-1500:]))
    finally:
        if own:
            shutil.rmtree(tmp, ignore_errors=True)


class TLCResult:
    def __init__(self):
        self.generated = 0
        self.distinct = 0
        self.depth = 0
        self.json = []
        self.errors = []
        self.out = ""
        self.wall = 0.0
        self.cmd = ""
        self.coverage = {}

    def ok(self):
        return not self.errors


def run_tlc(module, constants=None, invariants=(), properties=(), spec="Spec", init=None, next_=None,
            workers=None, simulate=None, depth=None, seed=None, timeout=3600, env=None, tmp=None,
            constraints=(), postcondition=None, deadlock=False, extra_cfg="", keep_out=False,
            coverage=False, view=None, use_override=True):
    """Run TLC on spec/<module>.tla with a generated cfg.  Returns TLCResult; JSON lines printed by the
    model (PrintT(ToJson(..))) are decoded into result.json."""
    ensure_overrides()
    own_tmp = tmp is None
    tmp = tmp or tempfile.mkdtemp(prefix="verif-tlc-")
    try:
        cfg = []
        if init:
            cfg.append("INIT %s\nNEXT %s" % (init, next_))
        else:
            cfg.append("SPECIFICATION %s" % spec)
        if constants:
            cfg.append("CONSTANTS")
            for k, v in constants.items():
                cfg.append(" %s <- %s" % (k, v) if isinstance(v, Subst) else " %s = %s" % (k, cfg_value(v)))
        for i in invariants:
            cfg.append("INVARIANT %s" % i)
        for p in properties:
            cfg.append("PROPERTY %s" % p)
        for c in constraints:
            cfg.append("CONSTRAINT %s" % c)
        if postcondition:
            cfg.append("POSTCONDITION %s" % postcondition)
        if view:
            cfg.append("VIEW %s" % view)
        cfg.append("CHECK_DEADLOCK %s" % ("TRUE" if deadlock else "FALSE"))
        if extra_cfg:
            cfg.append(extra_cfg)
        cfgp = os.path.join(tmp, module + "_%d.cfg" % (int(time.time() * 1e6) % 10 ** 9))
        with open(cfgp, "w") as f:
            f.write("\n".join(cfg) + "\n")
        cp = (OVR + ":" if use_override else "") + TLA_JAR + ":" + CM_JAR
        cmd = ["java", "-XX:+UseParallelGC", "-Xmx12g", "-Xss64m", "-cp", cp, "tlc2.TLC",
               "-workers", str(workers or NPROC), "-metadir", os.path.join(tmp, "meta%d" % (int(time.time() * 1e6) % 10 ** 9)),
               "-noGenerateSpecTE", "-config", cfgp]
        if simulate:
            cmd += ["-simulate", simulate]
        if depth:
            cmd += ["-depth", str(depth)]
        if seed is not None:
            cmd += ["-seed", str(seed)]
        if coverage:
            cmd += ["-coverage", "1"]
        cmd.append(module + ".tla")
        res = TLCResult()
        res.cmd = " ".join(cmd)
        t0 = time.time()
        e = dict(os.environ)
        if env:
            e.update(env)
        outp = os.path.join(tmp, "tlc_out_%d.txt" % (int(time.time() * 1e6) % 10 ** 9))
        with open(outp, "w") as fo:
            try:
                p = subprocess.run(cmd, cwd=SPEC, stdout=fo, stderr=subprocess.STDOUT, timeout=timeout, env=e)
                rc = p.returncode
            except subprocess.TimeoutExpired:
                rc = -9
                res.errors.append("TLC timeout after %ss" % timeout)
        res.wall = time.time() - t0
        other = []
        with open(outp) as fo:
            for line in fo:
                if line.startswith('"{') or line.startswith('"['):
                    try:
                        res.json.append(json.loads(json.loads(line)))
                    except Exception as ex:  # interleaved or malformed print
                        res.errors.append("unparsable JSON line from TLC: %r (%s)" % (line[:120], ex))
                else:
                    other.append(line)
        text = "".join(other)
        res.out = text if keep_out or True else ""
        m = re.findall(r"(\d+) states generated, (\d+) distinct states found", text)
        if m:
            res.generated, res.distinct = int(m[-1][0]), int(m[-1][1])
        m = re.search(r"depth of the complete state graph search is (\d+)", text)
        if m:
            res.depth = int(m.group(1))
        for line in text.splitlines():
            if line.startswith("Error:") or "is violated" in line or "Exception" in line:
                res.errors.append(line.strip())
        if rc not in (0,) and not res.errors:
            res.errors.append("TLC exit code %s" % rc)
        if coverage:
            for mm in re.finditer(r"<(\w+) line \d+, col \d+ to line \d+, col \d+ of module (\w+)>: (\d+):(\d+)", text):
                res.coverage[mm.group(1)] = (int(mm.group(3)), int(mm.group(4)))
        return res
    finally:
        if own_tmp:
            shutil.rmtree(tmp, ignore_errors=True)


# ---------------------------------------------------------------------------------------------
# exact values from TLC JSON

def frac(x):
    """rational [n, d] (components int or decimal string) -> Fraction"""
    return Fraction(int(x[0]), int(x[1]))


def fvec(v):
    return [frac(x) for x in v]


def fmat(m):
    return [[frac(x) for x in r] for r in m]


# ---------------------------------------------------------------------------------------------
# process pool (workers import strawberryfields themselves; the parent never does)

def _init_worker(hbar, initfn):
    os.environ.setdefault("OMP_NUM_THREADS", "1")
    os.environ.setdefault("OPENBLAS_NUM_THREADS", "1")
    os.environ.setdefault("MKL_NUM_THREADS", "1")
    import warnings
    warnings.filterwarnings("ignore")
    if hbar is not None:
        import strawberryfields as sf
        sf.hbar = hbar
    if initfn:
        initfn()


_POOLS = {}


def warm(fock=True):
    """kept for callers; workers compile what they need on first use (the parent never imports strawberryfields:
    numba's thread pool does not survive fork())."""
    return


def _task(args):
    fn, cfg, item = args
    mod = sys.modules.get(fn.__module__)
    if cfg is not None and mod is not None and hasattr(mod, "_CFG"):
        mod._CFG.clear()
        mod._CFG.update(cfg)
    return fn(item)


def get_pool(hbar=None):
    key = hbar
    if key not in _POOLS:
        os.environ.setdefault("OMP_NUM_THREADS", "1")
        os.environ.setdefault("OPENBLAS_NUM_THREADS", "1")
        os.environ.setdefault("NUMBA_NUM_THREADS", "1")
        ctx = mp.get_context("fork")
        _POOLS[key] = ctx.Pool(NPROC, initializer=_init_worker, initargs=(hbar, None))
    return _POOLS[key]


def close_pools():
    for p in _POOLS.values():
        p.terminate()
    _POOLS.clear()


def pmap(fn, items, nproc=None, hbar=None, initfn=None, chunksize=None):
    """Map fn over items on a persistent worker pool (one pool per hbar value: sf.hbar is process-global).  The calling
    module's _CFG dict (if any) is shipped with every task."""
    items = list(items)
    if not items:
        return []
    mod = sys.modules.get(fn.__module__)
    cfg = dict(getattr(mod, "_CFG", {})) if mod is not None and hasattr(mod, "_CFG") else None
    pool = get_pool(hbar)
    cs = chunksize or max(1, min(32, len(items) // (NPROC * 8) or 1))
    return pool.map(_task, [(fn, cfg, it) for it in items], chunksize=cs)


# ---------------------------------------------------------------------------------------------
# findings, violations, evidence

def load_findings():
    p = os.path.join(ROOT, "known_findings.json")
    if not os.path.exists(p):
        return []
    with open(p) as f:
        return json.load(f)


def sig_match(sig, feat):
    for k, v in sig.items():
        fv = feat.get(k)
        if isinstance(v, list):
            if fv not in v:
                return False
        elif fv != v:
            return False
    return True


class Check:
    """Context of one check run: collects TLC statistics, violations and evidence."""

    def __init__(self, pid, tier, seed, level="model_checking"):
        self.pid, self.tier, self.seed, self.level = pid, tier, seed, level
        self.t0 = time.time()
        self.states = 0
        self.transitions = 0
        self.traces = 0
        self.evaluations = 0
        self.nontrivial = set()
        self.samples = []
        self.violations = []
        self.inconclusive = 0
        self.tlc_cmds = []
        self.notes = {}
        self.rule = ""
        self.assumptions = []
        self.exhaustive = None
        self.tmp = tempfile.mkdtemp(prefix="verif-%s-" % pid)
        self.findings = [f for f in load_findings() if f.get("property") == pid]

    # -- TLC -----------------------------------------------------------------------------------
    def tlc(self, module, **kw):
        kw.setdefault("tmp", self.tmp)
        r = run_tlc(module, **kw)
        self.states += r.distinct
        self.transitions += r.generated
        self.tlc_cmds.append("tlc %s %s" % (module, json.dumps(kw.get("constants", {}), sort_keys=True)))
        if not r.ok():
            tail = "\n".join(r.out.splitlines()[-40:])
            raise MachineryError("TLC failed on %s: %s\n%s" % (module, r.errors[:5], tail))
        return r

    # -- accounting --------------------------------------------------------------------------------
    def count(self, key=None, n=1, nontrivial=False):
        self.evaluations += n
        if nontrivial and key is not None:
            self.nontrivial.add(key if isinstance(key, (str, int)) else hashlib.md5(
                json.dumps(key, sort_keys=True, default=str).encode()).hexdigest())

    def sample(self, s, cap=6):
        if len(self.samples) < cap:
            self.samples.append(s)

    def violation(self, clause, features, detail):
        """features: flat dict used for known-finding signatures; detail: anything JSON-serialisable."""
        self.violations.append({"clause": clause, "features": features, "detail": detail})

    # -- finish --------------------------------------------------------------------------------
    def finish(self):
        wall = time.time() - self.t0
        unlisted, listed = [], {}
        for v in self.violations:
            feat = dict(v["features"])
            feat["clause"] = v["clause"]
            hit = None
            for f in self.findings:
                if f.get("status") == "open" and sig_match(f.get("signature", {}), feat):
                    hit = f
                    break
            if hit is not None:
                listed.setdefault(hit["what"], 0)
                listed[hit["what"]] += 1
            else:
                unlisted.append(v)
        for what, n in listed.items():
            print("KNOWN-FINDING: property=%s %s (%d occurrences this run)" % (self.pid, what, n))
        os.makedirs(os.path.join(OUT, "replays"), exist_ok=True)
        seen = set()
        nprint = 0
        for v in unlisted:
            key = json.dumps([v["clause"], v["features"]], sort_keys=True, default=str)
            if key in seen:
                continue
            seen.add(key)
            h = hashlib.md5(json.dumps(v, sort_keys=True, default=str).encode()).hexdigest()[:10]
            path = os.path.join(OUT, "replays", "%s-%s.json" % (self.pid, h))
            with open(path, "w") as f:
                json.dump({"property": self.pid, **v}, f, indent=1, default=str)
            if nprint < 25:
                print("VIOLATION property=%s replay=%s clause=%s features=%s" % (
                    self.pid, path, v["clause"], json.dumps(v["features"], sort_keys=True, default=str)))
            nprint += 1
        if nprint > 25:
            print("(%d further distinct violation signatures not printed)" % (nprint - 25))
        cov = {
            "states": self.states, "transitions": self.transitions,
            "traces_validated_against_impl": self.traces,
            "evaluations": self.evaluations,
            "distinct_nontrivial": len(self.nontrivial),
            "rule": self.rule, "samples": self.samples[:6],
            "checker_cmd": "; ".join(self.tlc_cmds[:6]),
            "inconclusive": self.inconclusive,
            "known_finding_hits": sum(listed.values()),
        }
        if self.exhaustive is not None:
            cov["exhaustive"] = self.exhaustive
        cov.update(self.notes)
        ev = {"property_id": self.pid, "tier": self.tier, "seed": self.seed, "level": self.level,
              "coverage": cov, "assumptions": self.assumptions, "wall_s": round(wall, 2),
              "violations": len(unlisted)}
        os.makedirs(os.path.join(OUT, "evidence"), exist_ok=True)
        with open(os.path.join(OUT, "evidence", self.pid + ".json"), "w") as f:
            json.dump(ev, f, indent=1, default=str)
        shutil.rmtree(self.tmp, ignore_errors=True)
        close_pools()
        print("%s %s: states=%d transitions=%d traces=%d evaluations=%d nontrivial=%d inconclusive=%d "
              "violations=%d known=%d wall=%.1fs" % (self.pid, self.tier, self.states, self.transitions, self.traces,
                                                    self.evaluations, len(self.nontrivial), self.inconclusive,
                                                    len(unlisted), sum(listed.values()), wall))
        return 1 if unlisted else 0
