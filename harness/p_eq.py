"""C18: programs reported equal or equivalent compute the same thing.  TLC (MC_Eq.tla) enumerates the program pool; the
harness evaluates == and equivalence() (default arguments) on ALL ordered pairs and on legally reordered variants; TLC
(TraceEq.tla) judges: reported-true => same denotation, reflexive, symmetric, invariant under legal reordering."""
import itertools
import json
import random

from . import common, tracecases
from .lattice import short

_CFG = {}


def _rows(arg):
    """worker: all pairs (i, j), i <= j, for the given list of i; returns interesting pair records"""
    import warnings
    warnings.filterwarnings("ignore")
    from . import sfx
    rows, pool, n = arg
    progs = [sfx.build_program(n, c) for c in pool]
    twins = {}
    out = []
    stats = {"pairs": 0, "eq_true": 0, "ev_true": 0}
    for i in rows:
        if i not in twins:
            twins[i] = sfx.build_program(n, pool[i])
        for j in range(i, len(pool)):
            p = twins[i] if i == j else progs[i]
            q = progs[j]
            try:
                r = [bool(p == q), bool(q == p), bool(p.equivalence(q)), bool(q.equivalence(p))]
            except Exception as e:  # noqa
                out.append({"error": type(e).__name__, "msg": str(e)[:200], "i": i, "j": j})
                continue
            stats["pairs"] += 1
            stats["eq_true"] += r[0]
            stats["ev_true"] += r[2]
            if any(r) or r[0] != r[1] or r[2] != r[3] or i == j:
                out.append({"kind": "pair", "n": n, "p": pool[i], "q": pool[j], "eqpq": r[0], "eqqp": r[1], "evpq": r[2], "evqp": r[3],
                            "same": i == j, "perm": [], "e1": False, "e2": False})
    return out, stats


def _closure(arg):
    """worker: reorder adjacent commands on disjoint modes and compare equivalence() against every q of a sample"""
    import warnings
    warnings.filterwarnings("ignore")
    from . import sfx
    idxs, pool, n, qs = arg
    out = []
    qprogs = [sfx.build_program(n, pool[k]) for k in qs]
    for i in idxs:
        c = pool[i]
        for k in range(len(c) - 1):
            if set(c[k]["modes"]) & set(c[k + 1]["modes"]):
                continue
            perm = list(range(1, len(c) + 1))
            perm[k], perm[k + 1] = perm[k + 1], perm[k]
            c2 = [c[x - 1] for x in perm]
            p, p2 = sfx.build_program(n, c), sfx.build_program(n, c2)
            for qk, q in zip(qs, qprogs):
                e1, e2 = bool(p.equivalence(q)), bool(p2.equivalence(q))
                if e1 != e2 or e1:
                    out.append({"kind": "closure", "n": n, "p": c, "q": pool[qk], "perm": perm, "e1": e1, "e2": e2,
                                "eqpq": False, "eqqp": False, "evpq": False, "evqp": False, "same": False})
    return out


def _rebinding(arg):
    """worker: histories bind -> compare -> re-bind -> compare again on the same Program objects (free parameters)"""
    import math
    import warnings
    warnings.filterwarnings("ignore")
    import strawberryfields as sf
    from strawberryfields import ops
    from . import sfx
    n = 2
    angles = {"a345": [[3, 5], [4, 5]], "a435": [[4, 5], [3, 5]], "a3m45": [[3, 5], [-4, 5]]}
    out = []
    for tail in ([], [{"name": "BSgate", "p": [angles["a345"], [[1, 1], [0, 1]]], "modes": [0, 1], "dag": False}],
                 [{"name": "Kgate", "p": [[1, 1]], "modes": [1], "dag": False}]):
        for mode in (0, 1):
            sym = sf.Program(n)
            x = sym.params("x")
            with sym.context as q:
                ops.Rgate(x) | q[mode]
                for o in tail:
                    sfx.mk_op(o) | tuple(q[m] for m in o["modes"])
            for hist in (["a345", "a435", "a345"], ["a435", "a3m45"], ["a3m45", "a3m45", "a345"]):
                for cur in hist:
                    sym.bind_params({x: sfx.to_float("angle", angles[cur])})
                    pabs = [{"name": "Rgate", "p": [angles[cur]], "modes": [mode], "dag": False}] + tail
                    for other in angles:
                        qabs = [{"name": "Rgate", "p": [angles[other]], "modes": [mode], "dag": False}] + tail
                        qp = sfx.build_program(n, qabs)
                        r = [bool(sym == qp), bool(qp == sym), bool(sym.equivalence(qp)), bool(qp.equivalence(sym))]
                        out.append({"kind": "pair", "n": n, "p": pabs, "q": qabs, "eqpq": r[0], "eqqp": r[1], "evpq": r[2], "evqp": r[3],
                                    "same": False, "perm": [], "e1": False, "e2": False, "history": hist, "bound": cur})
    return out


def _balanced_bs(arg):
    """worker: BSgate(pi/4, phi) on (0, 1) against the same gate on (1, 0): pi/4 has no lattice value; whether the two are the same
    gate depends on phi only (MC_Eq: SwapSymmetryIndependentOfTheta), so the abstract pair handed to TLC carries a lattice angle"""
    import math
    import warnings
    warnings.filterwarnings("ignore")
    import strawberryfields as sf
    from strawberryfields import ops
    from . import sfx
    out = []
    A = {"0": [[1, 1], [0, 1]], "pi/2": [[0, 1], [1, 1]], "a345": [[3, 5], [4, 5]], "pi": [[-1, 1], [0, 1]], "-pi/2": [[0, 1], [-1, 1]]}
    a345 = [[3, 5], [4, 5]]
    for theta in (math.pi / 4, 3 * math.pi / 4, -math.pi / 4):
        for name, phi in A.items():
            def mk(modes):
                prog = sf.Program(2)
                with prog.context as q:
                    ops.BSgate(theta, sfx.to_float("angle", phi)) | (q[modes[0]], q[modes[1]])
                return prog
            p, q = mk((0, 1)), mk((1, 0))
            r = [bool(p == q), bool(q == p), bool(p.equivalence(q)), bool(q.equivalence(p))]
            pabs = [{"name": "BSgate", "p": [a345, phi], "modes": [0, 1], "dag": False}]
            qabs = [{"name": "BSgate", "p": [a345, phi], "modes": [1, 0], "dag": False}]
            out.append({"kind": "pair", "n": 2, "p": pabs, "q": qabs, "eqpq": r[0], "eqqp": r[1], "evpq": r[2], "evqp": r[3],
                        "same": False, "perm": [], "e1": False, "e2": False, "balanced": "theta=%.4f phi=%s" % (theta, name)})
    return out


def _tdm_pairs(arg):
    """worker: time-domain programs that differ in one per-bin value, in the number of concurrent modes or not at all; the abstract
    programs handed to TLC are their explicit loops (the unrolled circuits, projected)"""
    import warnings
    warnings.filterwarnings("ignore")
    import strawberryfields as sf
    from strawberryfields import ops
    from . import sfx, absproj
    A = {"a345": [[3, 5], [4, 5]], "a435": [[4, 5], [3, 5]], "pi/2": [[0, 1], [1, 1]]}

    def mk(arr, N, plain=False):
        vals = [sfx.to_float("angle", A[a]) for a in arr]
        prog = sf.TDMProgram(N)
        with prog.context(vals) as (p, q):
            ops.Sgate(sfx.to_float("sq", [4, 3]), 0.0) | q[N - 1]
            ops.Rgate(p[0]) | q[N - 1]
            ops.BSgate(sfx.to_float("angle", A["a345"]), 0.0) | (q[0], q[N - 1])
        return prog

    def loop(prog):
        c = sf.TDMProgram(prog.N)      # unroll a twin, the compared objects stay rolled
        return c
    specs = [(("a345", "a435"), 2), (("a345", "pi/2"), 2), (("a345", "a435"), 3), (("a345", "a435", "a345"), 2)]
    built = []
    for arr, N in specs:
        twin = mk(arr, N)
        twin.unroll()
        built.append((arr, N, absproj.project_circuit(twin.circuit)))
    out = []
    for i, (a1, n1, abs1) in enumerate(built):
        for j, (a2, n2, abs2) in enumerate(built):
            p, q = mk(a1, n1), mk(a2, n2)
            r = [bool(p == q), bool(q == p)]
            nmax = max(n1, n2) + max(len(a1), len(a2))
            out.append({"kind": "pair", "n": 3, "p": abs1, "q": abs2, "eqpq": r[0], "eqqp": r[1], "evpq": False, "evqp": False,
                        "same": False, "perm": [], "e1": False, "e2": False, "tdm": "%s N=%d vs %s N=%d" % (list(a1), n1, list(a2), n2)})
    # a plain program with the same commands as a (rolled) time-domain program is another thing
    p = mk(("a345", "a435"), 2)
    plain = sf.Program(2)
    plain.circuit = list(p.circuit)
    out.append({"kind": "pair", "n": 3, "p": built[0][2], "q": [], "eqpq": bool(p == plain), "eqqp": bool(plain == p), "evpq": False, "evqp": False,
                "same": False, "perm": [], "e1": False, "e2": False, "tdm": "time-domain program vs plain program with its one-bin commands"})
    return out


def diff_kind(p, q):
    if len(p) != len(q):
        short_, long_ = (p, q) if len(p) < len(q) else (q, p)
        return "prefix" if long_[:len(short_)] == short_ else "different_length"
    strip = lambda c, keys: [{k: o[k] for k in keys} for o in c]
    if p == q:
        return "identical"
    if strip(p, ("name", "p", "modes")) == strip(q, ("name", "p", "modes")):
        return "dagger_only"
    if strip(p, ("name", "p", "dag")) == strip(q, ("name", "p", "dag")):
        return "modes_only"
    if strip(p, ("name", "modes", "dag")) == strip(q, ("name", "modes", "dag")):
        return "params_only"
    return "other"


def c18(chk):
    tier = chk.tier
    rnd = random.Random(chk.seed)
    chk.rule = ("TLC (MC_Eq) enumerates every circuit of <= 2 commands over a 2-mode (thorough: also 3-mode) alphabet with daggered "
                "variants, inverse parameters, relabelled modes, swapped two-mode targets and non-Gaussian gates; == and equivalence() are "
                "evaluated on ALL ordered pairs (and with separately built identical twins) and on adjacent-swap reorderings; TLC decides "
                "soundness (finite phase space + exact state), reflexivity, symmetry, invariance under legal reordering. "
                "Non-trivial = pair with a relation reported true, or an identical twin, or a reordering case.")
    chk.assumptions = ["equivalence() is called with its default arguments (compare_params=True)",
                       "a relation reported False is never an alarm (the relations are not required to be complete)"]
    plans = [(2, 2)] if tier == "quick" else [(2, 2), (3, 2)]
    for (n, L) in plans:
        r = chk.tlc("MC_Eq", constants={"NMod": n, "Len0": L}, invariants=["EmitInv"] + (["SwapSymmetryIndependentOfTheta"] if n == 2 else []))
        pool = [it["circ"] for it in r.json]
        rows = list(range(len(pool)))
        rnd.shuffle(rows)
        if n == 3:
            pool = pool[:1] + rnd.sample(pool[1:], 500)
            rows = list(range(len(pool)))
        res = common.pmap(_rows, [(rows[k::64], pool, n) for k in range(64)], chunksize=1)
        cases = []
        tot = {"pairs": 0, "eq_true": 0, "ev_true": 0}
        for out, stats in res:
            for k in tot:
                tot[k] += stats[k]
            for c in out:
                if "error" in c:
                    chk.violation("UnexpectedError", {"error": c["error"]}, {"p": short(pool[c["i"]]), "q": short(pool[c["j"]]), "msg": c["msg"]})
                else:
                    cases.append(c)
        qs = rnd.sample(range(len(pool)), 40)
        withpair = [i for i, c in enumerate(pool) if len(c) >= 2 and not set(c[0]["modes"]) & set(c[1]["modes"])]
        cl = common.pmap(_closure, [(withpair[k::32], pool, n, qs) for k in range(32)], chunksize=1)
        for lst in cl:
            cases += lst
        if n == 2:
            for lst in common.pmap(_rebinding, [0], chunksize=1):
                cases += lst
            for lst in common.pmap(_balanced_bs, [0], chunksize=1):
                cases += lst
            for lst in common.pmap(_tdm_pairs, [0], chunksize=1):
                cases += lst
        chk.evaluations += tot["pairs"]
        verdicts = tracecases.validate(chk, "TraceEq", cases, "eq%d" % n, chunk=5000,
                                       keys=("kind", "n", "p", "q", "eqpq", "eqqp", "evpq", "evqp", "same", "perm", "e1", "e2"))
        for k, c in enumerate(cases):
            v = verdicts[k]["verdict"]
            chk.traces += 1
            chk.count(key=json.dumps(c, sort_keys=True), n=0, nontrivial=True)
            if v != "accepted":
                rel = "equivalence" if "Equiv" in v or c["kind"] == "closure" else "eq"
                chk.violation(v, {"relation": rel, "difference": diff_kind(c["p"], c["q"]), "rebound": "history" in c},
                              {"p": short(c["p"]), "q": short(c["q"]), "case": c})
        chk.notes["pairs_%dmodes" % n] = tot
        chk.sample({"n": n, "p": short(cases[len(cases) // 2]["p"]), "q": short(cases[len(cases) // 2]["q"]),
                    "answers": {k: cases[len(cases) // 2][k] for k in ("eqpq", "eqqp", "evpq", "evqp")}})
    chk.exhaustive = True
