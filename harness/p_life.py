"""Program life cycle (MC_Life.tla): contexts, locks, successors, derived programs.  Every call history TLC enumerates is
replayed call by call into real Program objects; after every call the projected state (context owner; per program: lock,
circuit length, activity flags of the register references, source) and the class of every refusal are compared with the
specification's (direction A).  Used by C09 (running / compiling leaves user programs untouched, and locks them) and C08
(register references keep their meaning)."""
import json
import traceback

from . import common

_CFG = {}


def _replay(item):
    try:
        import warnings
        import strawberryfields as sf
        from strawberryfields import ops
        from strawberryfields import program_utils as pu
        pu.Program_current_context = None
        progs = {}
        engine = sf.Engine("gaussian")

        def project():
            cur = pu.Program_current_context
            out = {"ctx": next((s for s, p in progs.items() if p is cur), 0 if cur is None else -1), "prog": {}}
            last = engine.run_progs[-1] if engine.run_progs else None
            out["eng"] = {"used": last is not None, "reg": [] if last is None else [bool(last.reg_refs[i].active) for i in sorted(last.reg_refs)]}
            for s, p in progs.items():
                src = getattr(p, "source", None)
                out["prog"][s] = {"locked": bool(p.locked), "len": len(p.circuit),
                                  "reg": [bool(p.reg_refs[i].active) for i in sorted(p.reg_refs)],
                                  "src": next((t for t, q in progs.items() if q is src), 0 if src is None else -1)}
            return out

        for k, (a, want) in enumerate(zip(item["hist"], item["trail"])):
            name, args = a["act"], a["args"]
            res = "ok"
            try:
                with warnings.catch_warnings():
                    warnings.simplefilter("ignore")
                    if name == "Create":
                        progs[args[0]] = sf.Program(args[1])
                    elif name == "Child":
                        progs[args[0]] = sf.Program(progs[args[1]])
                    elif name == "Compile":
                        progs[args[0]] = progs[args[1]].compile(compiler="gaussian")
                    elif name == "Optimize":
                        progs[args[0]] = progs[args[1]].optimize()
                    elif name == "Enter":
                        progs[args[0]].__enter__()
                    elif name == "Exit":
                        progs[args[0]].__exit__(None, None, None)
                    elif name == "GateRef":
                        ops.Rgate(0.25) | progs[args[0]].reg_refs[args[1] - 1]
                    elif name == "GateInt":
                        ops.Rgate(0.25) | (args[0] - 1)
                    elif name == "DelInt":
                        ops.Del | (args[0] - 1)
                    elif name == "New":
                        ops.New(1)
                    elif name == "Lock":
                        progs[args[0]].lock()
                    elif name == "Run":
                        sf.Engine("gaussian").run(progs[args[0]])
                    elif name == "RunE":
                        engine.run(progs[args[0]])
                    else:
                        raise KeyError(name)
            except Exception as e:  # noqa
                res = type(e).__name__
            got = project()
            exp = {"ctx": want["ctx"], "prog": {}, "eng": {"used": want["eng"]["used"], "reg": list(want["eng"]["reg"])}}
            for s, p in enumerate(want["prog"], start=1):
                if p["ex"]:
                    exp["prog"][s] = {"locked": p["locked"], "len": p["len"], "reg": list(p["reg"]), "src": p["src"], "derived": p["derived"]}
            bad = None
            if a["res"] == "ok" and res != "ok":
                bad = ("RefusedValidCall", res)
            elif a["res"] != "ok" and res == "ok":
                bad = ("AcceptedInvalidCall", a["res"])
            elif a["res"] not in ("ok", "error") and res != a["res"]:
                bad = ("WrongErrorClass", res)
            if bad is None:
                if got["ctx"] != exp["ctx"]:
                    bad = ("ContextOwner", None)
                elif got["eng"] != exp["eng"]:
                    bad = ("EngineRegister", None)
                elif set(got["prog"]) != set(exp["prog"]):
                    bad = ("Programs", None)
                else:
                    for s, e in exp["prog"].items():
                        g = got["prog"][s]
                        for fld in ("locked", "reg", "src") + (() if e["derived"] else ("len",)):
                            if g[fld] != e[fld]:
                                bad = ("ProgramState", fld)
                                break
                        if bad:
                            break
            if bad:
                pu.Program_current_context = None
                return {"ok": True, "bad": bad, "step": k, "call": a, "got": got, "exp": exp, "raised": res}
        pu.Program_current_context = None
        return {"ok": True, "bad": None}
    except Exception as e:  # noqa
        try:
            from strawberryfields import program_utils as pu
            pu.Program_current_context = None
        except Exception:  # noqa
            pass
        return {"ok": False, "err": type(e).__name__, "msg": str(e)[:300], "tb": traceback.format_exc()[-1200:]}


def life(chk, depth, np_=3, maxreg=2, simulate=None):
    consts = {"NP": np_, "MaxReg": maxreg, "Depth": depth, "EMIT": True}
    kw = {}
    if simulate:
        kw = {"simulate": simulate, "depth": depth + 1}
    r = chk.tlc("MC_Life", constants=consts, invariants=["SourceFlat", "CtxValid", "ParentLocked", "EmitInv"],
                properties=["LockedIsFrozen", "RefusalsChangeNothing", "RefusedRunOnlyLocks", "EngineFollows", "GrowthNeedsContext"], **kw)
    items = r.json
    seen = set()
    uniq = []
    for it in items:
        k = json.dumps(it["hist"], sort_keys=True)
        if k not in seen:
            seen.add(k)
            uniq.append(it)
    outs = common.pmap(_replay, uniq)
    for it, o in zip(uniq, outs):
        chk.traces += 1
        calls = [a["act"] for a in it["hist"]]
        refused = [a["act"] for a in it["hist"] if a["res"] != "ok"]
        chk.count(key=("life", json.dumps(it["hist"], sort_keys=True)), nontrivial=bool(refused) or any(c in calls for c in ("Child", "Compile", "Optimize", "Run", "RunE", "Lock")))
        det = {"history": [[a["act"], a["args"], a["res"]] for a in it["hist"]]}
        if not o["ok"]:
            chk.violation("UnexpectedError", {"model": "life", "error": o["err"]}, dict(det, msg=o["msg"], tb=o["tb"]))
            continue
        if o["bad"]:
            chk.violation("LifeCycle", {"model": "life", "clause": o["bad"][0], "call": o["call"]["act"], "expected": o["call"]["res"], "detail": o["bad"][1]},
                          dict(det, step=o["step"], got=o["got"], expected=o["exp"], raised=o["raised"]))
    if uniq:
        mid = uniq[len(uniq) // 2]
        chk.sample({"model": "MC_Life", "history": [[a["act"], a["args"], a["res"]] for a in mid["hist"]]})
    return len(uniq)
