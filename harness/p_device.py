"""C12: hardware compilation conforms to the device and preserves the experiment (X-series).  TLC (MC_Device.tla) enumerates
source programs (squeezers absent / single / repeated / on a wrong pair / out of range / with a phase, lattice
interferometers duplicated or not, full or partial measurement) with their exact Gaussian state; each is compiled with
Xstrict, Xunitary and Xcov for a generated device; the outcome must be a CircuitError / ValueError or a circuit that TLC
(TraceDevice.tla) accepts as an instance of the layout with all parameters in range, and whose executed state has the source's
photon-number statistics (exact state for Xstrict / Xunitary)."""
import itertools
import json
import math
import traceback

import numpy as np

from . import common, tracecases
from .lattice import short

_CFG = {}
TWO_PI = 2 * math.pi


def mesh_pairs(n):
    """Mach-Zehnder positions of the symmetric rectangular mesh on n modes, layer by layer"""
    out = []
    for layer in range(n):
        for a in range(layer % 2, n - 1, 2):
            out.append((a, a + 1))
    return out


def layout(np_):
    n = 2 * np_
    lines = ["name template_%dx2" % np_, "version 1.0", "target X%d_01 (shots=1)" % n]
    for i in range(np_):
        lines.append("S2gate({squeezing_amplitude_%d}, 0.0) | [%d, %d]" % (i, i, i + np_))
    mp = mesh_pairs(np_)
    for off in (0, np_):
        for k, (a, b) in enumerate(mp):
            lines.append("MZgate({phase_%d}, {phase_%d}) | [%d, %d]" % (2 * k, 2 * k + 1, a + off, b + off))
    for i in range(n):
        lines.append("Rgate({final_phase_%d}) | [%d]" % (i, i))
    lines.append("MeasureFock() | [%s]" % ", ".join(map(str, range(n))))
    return "\n".join(lines) + "\n"


def device_spec(np_):
    n = 2 * np_
    gp = {}
    for i in range(np_):
        gp["squeezing_amplitude_%d" % i] = [[0, 1]]          # a range (a flat list would be a set of allowed values)
    for k in range(2 * len(mesh_pairs(np_))):
        gp["phase_%d" % k] = [0, [0, TWO_PI]]
    for i in range(n):
        gp["final_phase_%d" % i] = [0, [0, TWO_PI]]
    return {"target": "X%d_01" % n, "layout": layout(np_), "modes": n, "compiler": [], "gate_parameters": gp}


def template(np_):
    """abstract template: list of (name, modes, [(lo, hi) per parameter])"""
    n = 2 * np_
    t = []
    for i in range(np_):
        t.append(("S2gate", [i, i + np_], [(0.0, 1.0), (0.0, 0.0)]))
    mp = mesh_pairs(np_)
    for off in (0, np_):
        for (a, b) in mp:
            t.append(("MZgate", [a + off, b + off], [(0.0, TWO_PI), (0.0, TWO_PI)]))
    for i in range(n):
        t.append(("Rgate", [i], [(0.0, TWO_PI)]))
    t.append(("MeasureFock", list(range(n)), []))
    return t


def _run_one(item):
    import strawberryfields as sf
    from strawberryfields import ops
    from strawberryfields.compilers import Compiler
    from strawberryfields.program_utils import CircuitError
    from . import sfx
    np_ = item["np"]
    n = 2 * np_
    out = {}
    try:
        dev = sf.Device(spec=device_spec(np_))

        def build():
            prog = sf.Program(n)
            with prog.context as q:
                for o in item["source"]:
                    sfx.mk_op(o) | tuple(q[m] for m in o["modes"])
                ops.MeasureFock() | tuple(q[m] for m in item["measured"])
            return prog
        if item.get("template_params"):
            def build():            # noqa: F811 -- an instance of the device template itself
                return dev.create_program(**item["template_params"])
        # the source itself (without measurement) on the Gaussian simulator
        src = sf.Program(n)
        tcmds = [c for c in build().circuit if type(c.op).__name__ != "MeasureFock"] if item.get("template_params") else []
        with src.context as q:
            for cmd in tcmds:
                cmd.op | tuple(q[r.ind] for r in cmd.reg)
            for o in item["source"]:
                sfx.mk_op(o) | tuple(q[m] for m in o["modes"])
        sst = sf.Engine("gaussian").run(src).state
        out["source_state"] = [np.real(sst.means()).tolist(), np.real(sst.cov()).tolist()]
        pats = [p for p in itertools.product(range(3), repeat=n) if sum(p) <= 2]
        out["source_probs"] = [float(sst.fock_prob(list(p), cutoff=4)) for p in pats]
        tmpl = template(np_)
        for comp in ("Xstrict", "Xunitary", "Xcov"):
            rec = {}
            try:
                for cls in Compiler.__subclasses__():
                    pass
                prog = build()
                try:
                    c = prog.compile(device=dev, compiler=comp)
                except (CircuitError, ValueError) as e:
                    rec["refused"] = "%s: %s" % (type(e).__name__, str(e)[:90])
                    out[comp] = rec
                    continue
                cmds = list(c.circuit)
                proj = []
                used = set()
                perm = []
                for cmd in cmds:
                    name = type(cmd.op).__name__
                    modes = [r.ind for r in cmd.reg]
                    ps = [float(np.real(x)) for x in cmd.op.p] if name != "MeasureFock" else []
                    j = next((i for i, t in enumerate(tmpl) if i not in used and t[0] == name and t[1] == modes), None)
                    if j is None:
                        j = next((i for i in range(len(tmpl)) if i not in used), None)
                    if j is not None:
                        used.add(j)
                        perm.append(j + 1)
                    rng = tmpl[j][2] if j is not None and len(tmpl[j][2]) == len(ps) else [(0.0, 0.0)] * len(ps)
                    proj.append({"name": name, "modes": modes, "p": [int(round(x * 1e6)) for x in ps],
                                 "dom": [[[int(round(lo * 1e6)) - 1, int(round(hi * 1e6)) + 1]] for lo, hi in rng],
                                 "dag": bool(getattr(cmd.op, "dagger", False))})
                rec["compiled"] = proj
                rec["perm"] = perm
                # execute without the measurement
                ex = sf.Program(n)
                with ex.context as q:
                    for cmd in cmds:
                        if type(cmd.op).__name__ != "MeasureFock":
                            cmd.op | tuple(q[r.ind] for r in cmd.reg)
                st = sf.Engine("gaussian").run(ex).state
                rec["state"] = [np.real(st.means()).tolist(), np.real(st.cov()).tolist()]
                rec["probs"] = [float(st.fock_prob(list(p), cutoff=4)) for p in pats]
                # the compiled program must survive a Blackbird round trip
                try:
                    text = sf.io.to_blackbird(c).serialize()
                    back = sf.io.loads(text)
                    rec["roundtrip_same"] = [str(x) for x in back.circuit] == [str(x) for x in c.circuit]
                except Exception as e:  # noqa
                    rec["roundtrip_error"] = "%s: %s" % (type(e).__name__, str(e)[:100])
            except Exception as e:  # noqa
                rec["error"] = "%s: %s" % (type(e).__name__, str(e)[:160])
                rec["tb"] = traceback.format_exc()[-700:]
            out[comp] = rec
        return {"ok": True, "res": out}
    except Exception as e:  # noqa
        return {"ok": False, "err": type(e).__name__, "msg": str(e)[:300], "tb": traceback.format_exc()[-1000:]}


def c12(chk):
    from . import sfx_cmp as sc
    tier = chk.tier
    chk.rule = ("X-series devices with 2 (thorough: 3) pairs generated by the harness (layout text + parameter ranges); TLC enumerates "
                "every combination of per-pair squeezing choice (none, two amplitudes, repeated squeezers to merge), interferometer recipe "
                "of <= 1-2 lattice gates on the signal modes (duplicated on the idlers or not), full / partial measurement and one defect "
                "(wrong pair, amplitude out of range, squeezing phase); each is compiled with Xstrict / Xunitary / Xcov. Non-trivial = source "
                "with an interferometer or squeezing; distinct by (source, compiler).")
    chk.assumptions = ["refusing (CircuitError / ValueError) is never an alarm; photon statistics compared on all patterns with <= 2 photons "
                       "(state.fock_prob of the Gaussian state object)"]
    plans = [(2, 1)] if tier == "quick" else [(2, 2), (3, 1)]
    for (np_, L) in plans:
        r = chk.tlc("MC_Device", constants={"NP": np_, "Len0": L, "EMIT": True}, invariants=["StateOK", "EmitInv"], timeout=3000)
        items = r.json
        if tier == "quick":
            items = [it for k, it in enumerate(items) if it["inside"] or k % 3 == chk.seed % 3]
        # instances of the template itself (what Xstrict is for): parameters on the lattice, mapped into the allowed ranges
        import random as _random
        rnd = _random.Random(chk.seed + np_)
        angs = [math.atan2(4, 3), math.pi / 2, math.pi, 2 * math.pi - math.atan2(4, 3), 0.0, math.atan2(3, 4)]
        sqs = [0.0, math.log(4 / 3), math.log(3 / 2), 1.0]
        ninst = 30 if tier == "quick" else 200
        for _ in range(ninst):
            tp = {}
            for i in range(np_):
                tp["squeezing_amplitude_%d" % i] = rnd.choice(sqs)
            for k in range(2 * len(mesh_pairs(np_))):
                tp["phase_%d" % k] = rnd.choice(angs)
            for i in range(np_):
                tp["final_phase_%d" % i] = tp["final_phase_%d" % (i + np_)] = rnd.choice(angs)   # both halves carry the same unitary
            items.append({"np": np_, "source": [], "measured": list(range(2 * np_)), "inside": True, "bad": "none", "dup": True,
                          "template_params": tp, "st": None})
        res = common.pmap(_run_one, items)
        cases, owners = [], []
        accepted = {"Xstrict": 0, "Xunitary": 0, "Xcov": 0}
        tmpl = [{"name": t[0], "modes": t[1]} for t in template(np_)]
        for it, o in zip(items, res):
            det0 = {"pairs": np_, "source": short(it["source"]) if it["source"] else "template instance %s" % json.dumps(it.get("template_params")),
                    "measured": it["measured"]}
            if not o["ok"]:
                chk.violation("UnexpectedError", {"error": o["err"]}, dict(det0, msg=o["msg"], tb=o["tb"]))
                continue
            o = o["res"]
            sm, sV = np.array(o["source_state"][0]), np.array(o["source_state"][1])
            if it["st"] is None:
                mu, V, source_ok = sm, sV, True                # template instance: the executed source is the reference
            else:
                mu, V = sc.exact_arrays(it["st"])
                source_ok = np.max(np.abs(sm - mu)) < 1e-9 and np.max(np.abs(sV - V)) < 1e-9
            for comp in ("Xstrict", "Xunitary", "Xcov"):
                rec = o[comp]
                chk.traces += 1
                f = {"compiler": comp, "pairs": np_, "inside_promise": it["inside"], "defect": it["bad"], "duplicated": it["dup"],
                     "template_instance": bool(it.get("template_params")),
                     "repeated_squeezer": any(x >= 3 for x in []) }
                f.pop("repeated_squeezer")
                chk.count(key=(comp, json.dumps(it["source"]), json.dumps(it["measured"]), json.dumps(it.get("template_params"))),
                          nontrivial=bool(it["source"]) or bool(it.get("template_params")))
                det = dict(det0, compiler=comp)
                if "error" in rec:
                    chk.violation("UnexpectedError", dict(f, error=rec["error"].split(":")[0]), dict(det, msg=rec["error"], tb=rec.get("tb")))
                    continue
                if "refused" in rec:
                    chk.notes["refused_" + comp] = chk.notes.get("refused_" + comp, 0) + 1
                    continue
                accepted[comp] += 1
                if not it["inside"] and it["bad"] in ("wrongpair", "toomuch"):
                    pass          # a returned circuit is still judged below (it must then be out of range / off layout)
                cases.append({"template": tmpl, "compiled": rec["compiled"], "perm": rec["perm"], "bins": 1, "maxbins": 1})
                owners.append((f, det, rec))
                if any(c["dag"] for c in rec["compiled"]):
                    chk.violation("InverseGateInHardwareCircuit", f, det)
                if not source_ok:
                    continue
                gm, gV = np.array(rec["state"][0]), np.array(rec["state"][1])
                dprob = float(np.max(np.abs(np.array(rec["probs"]) - np.array(o["source_probs"]))))
                if dprob > 1e-8:
                    chk.violation("PhotonStatisticsDiffer", f, dict(det, max_prob_diff=dprob))
                elif comp in ("Xstrict", "Xunitary") and (np.max(np.abs(gm - mu)) > 1e-7 or np.max(np.abs(gV - V)) > 1e-7):
                    chk.violation("StateDiffers", f, dict(det, info="dV=%.3g" % np.max(np.abs(gV - V))))
                if rec.get("roundtrip_same") is False:
                    chk.violation("BlackbirdRoundTripDiffers", f, det)
                if "roundtrip_error" in rec:
                    chk.violation("BlackbirdRoundTripFails", f, dict(det, msg=rec["roundtrip_error"]))
        verdicts = tracecases.validate(chk, "TraceDevice", cases, "dev%d" % np_, chunk=800)
        for k, (f, det, rec) in enumerate(owners):
            v = verdicts[k]["verdict"]
            if v != "accepted":
                chk.violation(v, f, dict(det, compiled=[(c["name"], c["modes"], c["p"]) for c in rec["compiled"]][:12]))
        chk.notes["accepted_%d_pairs" % np_] = accepted
        if sum(accepted.values()) == 0:
            raise common.MachineryError("vacuous: no source program was accepted by any X compiler for %d pairs (layout mismatch?)" % np_)
        chk.sample({"pairs": np_, "layout": layout(np_)[:300], "accepted": accepted})
    # time-domain loop devices
    from . import p_borealis, p_tdmdev
    p_tdmdev.tdm_devices(chk)
    p_borealis.borealis(chk)
    chk.exhaustive = tier != "quick"
