"""C11: Gaussian-merging compilers keep the net action.  TLC (MC_Merge.tla) enumerates source circuits on subsets of a
large register (with inverse flags) and computes the exact net symplectic matrix / displacement / transfer matrix on the
used modes in ascending order; the compiled programs' matrix parameters and registers are compared entry-wise, and the
compiled program is executed and compared with the exact state.  Hybrid circuits (gaussian_merge) are generated as random
DAG topologies with non-Gaussian barriers and judged by TLC through the finite phase-space denotation (TraceOpt.tla)."""
import json
import random
import traceback

import numpy as np

from . import common, tracecases
from .lattice import short

_CFG = {}


def _run_one(item):
    import strawberryfields as sf
    from strawberryfields import ops
    from strawberryfields.program_utils import CircuitError
    from . import sfx
    target, regsize = _CFG["target"], _CFG["regsize"]
    out = {"ok": True}
    try:
        prog = sfx.build_program(regsize, item["circ"])
        try:
            comp = prog.compile(compiler="gaussian_unitary" if target == "gu" else "passive")
        except CircuitError as e:
            return {"ok": True, "refused": str(e)[:100]}
        cmds = list(comp.circuit)
        out["compiled"] = [str(c)[:80] for c in cmds]
        used = item["used"]
        k = len(used)
        # the same circuit followed by the deletion of one of its modes has no single-matrix form: refused, or the deletion is kept
        if used:
            try:
                prog2 = sfx.build_program(regsize, list(item["circ"]) + [{"name": "Del", "p": [], "modes": [used[0]], "dag": False}])
                comp2 = prog2.compile(compiler="gaussian_unitary" if target == "gu" else "passive")
                if not any(type(c.op).__name__ == "_Delete" and [r.ind for r in c.reg] == [used[0]] for c in comp2.circuit):
                    out["meta_dropped"] = [str(c)[:60] for c in comp2.circuit]
            except CircuitError:
                pass
            except Exception as e:  # noqa
                out["meta_error"] = "%s: %s" % (type(e).__name__, str(e)[:100])
        if target == "gu":
            S = np.eye(2 * k)
            d = np.zeros(2 * k)
            regs = None
            for c in cmds:
                name = type(c.op).__name__
                if name == "GaussianTransform":
                    regs = [r.ind for r in c.reg]
                    M = np.asarray(c.op.p[0], dtype=float)
                    if regs != sorted(regs):
                        pass
                    S = M
                elif name == "Dgate":
                    m = c.reg[0].ind
                    al = float(c.op.p[0]) * np.exp(1j * float(c.op.p[1]))
                    if getattr(c.op, "dagger", False):
                        al = -al
                    if m in used:
                        d[used.index(m)] += 2 * al.real
                        d[used.index(m) + k] += 2 * al.imag
                    else:
                        out["stray"] = "Dgate on unused mode %d" % m
                else:
                    out["stray"] = "unexpected operation %s in compiled circuit" % name
            out["regs"] = regs
            out["S"] = S.tolist()
            out["d"] = d.tolist()
        else:
            T = np.eye(k, dtype=complex)
            regs = None
            for c in cmds:
                name = type(c.op).__name__
                if name == "PassiveChannel":
                    regs = [r.ind for r in c.reg]
                    T = np.asarray(c.op.p[0], dtype=complex)
                else:
                    out["stray"] = "unexpected operation %s in compiled circuit" % name
            out["regs"] = regs
            out["T"] = [[[x.real, x.imag] for x in row] for row in T]
        # execute source and compiled
        for label, p in (("source", prog), ("compiled", comp)):
            try:
                st = sf.Engine("gaussian").run(p).state
                mu, V = st.reduced_gaussian(sorted(used))
                out[label] = [np.real(mu).tolist(), np.real(V).tolist()]
                rest = [m for m in range(regsize) if m not in used]
                if rest:
                    mr, Vr = st.reduced_gaussian(rest)
                    out[label + "_rest_vacuum"] = bool(np.allclose(mr, 0) and np.allclose(Vr, np.eye(2 * len(rest))))
            except Exception as e:  # noqa
                out[label + "_error"] = "%s: %s" % (type(e).__name__, str(e)[:150])
        return out
    except Exception as e:  # noqa
        return {"ok": False, "err": type(e).__name__, "msg": str(e)[:300], "tb": traceback.format_exc()[-1000:]}


HYB_POOL = None


def hybrid_pool(n):
    A345, A435, APi2, A0 = [[3, 5], [4, 5]], [[4, 5], [3, 5]], [[0, 1], [1, 1]], [[1, 1], [0, 1]]
    pool = []
    for m in range(n):
        pool += [{"name": "Rgate", "p": [A345], "modes": [m], "dag": False}, {"name": "Rgate", "p": [A435], "modes": [m], "dag": True},
                 {"name": "Sgate", "p": [[4, 3], APi2], "modes": [m], "dag": False}, {"name": "Dgate", "p": [[1, 2], A345], "modes": [m], "dag": False},
                 {"name": "Kgate", "p": [[1, 1]], "modes": [m], "dag": False}, {"name": "Vgate", "p": [[1, 1]], "modes": [m], "dag": False},
                 {"name": "Kgate", "p": [[1, 1]], "modes": [m], "dag": True}]
    for a in range(n):
        for b in range(n):
            if a != b:
                pool += [{"name": "BSgate", "p": [A345, APi2], "modes": [a, b], "dag": False}, {"name": "BSgate", "p": [A435, A0], "modes": [a, b], "dag": True},
                         {"name": "CKgate", "p": [[1, 1]], "modes": [a, b], "dag": False}]
            if a < b:
                pool += [{"name": "S2gate", "p": [[4, 3], A0], "modes": [b, a], "dag": False}]
    return pool


def _hybrid_one(item):
    import strawberryfields as sf
    from strawberryfields.program_utils import CircuitError
    from . import sfx, absproj
    n = item["n"]
    try:
        prog = sfx.build_program(n, item["circ"])
        d0 = absproj.digest(prog)
        try:
            comp = prog.compile(compiler="gaussian_merge")
        except CircuitError as e:
            return {"ok": True, "refused": str(e)[:100]}
        out = {"ok": True, "compiled": [str(c)[:70] for c in comp.circuit], "modified": absproj.digest(prog) != d0}
        proj = []
        for c in comp.circuit:
            name = type(c.op).__name__
            if name == "GaussianTransform":
                M = np.asarray(c.op.p[0], dtype=float)
                rows = []
                for r in M:
                    rows.append([absproj.rat(x) for x in r])
                proj.append({"name": "GaussianTransform", "p": [rows], "modes": [r.ind for r in c.reg], "dag": False})
            else:
                proj.append(absproj.project_cmd(c))
        out["opt"] = proj
        return out
    except absproj.Unrecoverable as e:
        return {"ok": True, "unrecoverable": str(e)}
    except Exception as e:  # noqa
        return {"ok": False, "err": type(e).__name__, "msg": str(e)[:300], "tb": traceback.format_exc()[-1000:]}


def hybrid(chk, count, n=3):
    rnd = random.Random(chk.seed + 11)
    pool = hybrid_pool(n)
    items = []
    for i in range(count):
        L = rnd.randrange(3, 8)
        circ = [rnd.choice(pool) for _ in range(L)]
        if not any(o["name"] in ("Kgate", "Vgate", "CKgate") for o in circ):
            circ[rnd.randrange(L)] = rnd.choice([o for o in pool if o["name"] in ("Kgate", "Vgate", "CKgate")])
        items.append({"n": n, "circ": circ})
    # structured family: a two-mode Gaussian gate, a one-mode Gaussian gate, a non-Gaussian gate, a two-mode Gaussian gate on two
    # modes (the last gate reaches the first through one wire and the non-Gaussian gate through the other)
    p2 = hybrid_pool(2)
    g2 = [o for o in p2 if o["name"] in ("BSgate", "S2gate")]
    g1 = [o for o in p2 if o["name"] in ("Rgate", "Sgate", "Dgate")]
    ng = [o for o in p2 if o["name"] in ("Kgate", "Vgate", "CKgate")]
    fam = [[a, b, c, d] for a in g2 for b in g1 for c in ng for d in g2]
    step = 4 if chk.tier == "quick" else 1
    items += [{"n": 2, "circ": c, "family": "structured"} for c in fam[(chk.seed % step)::step]]
    res = common.pmap(_hybrid_one, items)
    cases, owners = [], []
    for it, o in zip(items, res):
        chk.traces += 1
        dag = any(x["dag"] for x in it["circ"])
        f = {"target": "gaussian_merge", "dagger": dag, "length": len(it["circ"]), "family": it.get("family", "random"),
             "displaces": any(x["name"] == "Dgate" for x in it["circ"])}
        det = {"program": short(it["circ"]), "n": it["n"]}
        chk.count(key=("hybrid", json.dumps(it["circ"])), nontrivial=True)
        if not o["ok"]:
            chk.violation("UnexpectedError", dict(f, error=o["err"]), dict(det, msg=o["msg"], tb=o.get("tb")))
            continue
        if "refused" in o:
            chk.notes["hybrid_refusals"] = chk.notes.get("hybrid_refusals", 0) + 1
            continue
        if "unrecoverable" in o:
            chk.inconclusive += 1
            continue
        if o["modified"]:
            chk.violation("SourceModified", f, dict(det, compiled=o["compiled"]))
        cases.append({"n": it["n"], "orig": it["circ"], "opt": o["opt"]})
        owners.append((f, dict(det, compiled=o["compiled"])))
    verdicts = tracecases.validate(chk, "TraceOpt", cases, "hybrid", chunk=1500)
    for k, (f, det) in enumerate(owners):
        if verdicts[k]["verdict"] != "accepted":
            chk.violation("HybridDenotationChanged", f, det)
    if owners:
        chk.sample({"target": "gaussian_merge", "program": owners[0][1]["program"], "compiled": owners[0][1]["compiled"]})


def c11(chk):
    from . import sfx_cmp as sc
    tier = chk.tier
    rnd = random.Random(chk.seed)
    chk.rule = ("TLC (MC_Merge) enumerates circuits of 2 (thorough: also 3) operations from a pool with plain and inverse rotations, squeezers, "
                "displacements, beamsplitters / two-mode squeezers / Mach-Zehnder gates in both target orders (passive pool: + loss) on every "
                "2-subset (thorough: + sampled 3-subsets) of a 10-mode (thorough 12) register; exact net S, d, T on the used modes in ascending "
                "order; compared with the matrix parameters and registers of compile('gaussian_unitary' | 'passive') and with the executed "
                "states of source and compiled programs. Hybrid gaussian_merge circuits: random DAGs with K/V/CK barriers judged by TLC's "
                "finite phase-space denotation. Non-trivial = circuit touching 2+ modes; distinct by (target, circuit, subset).")
    chk.assumptions = ["matrix entries compared at 1e-9; a CircuitError is an accepted refusal, any other exception is not"]
    # design level on a small register (all invariants), binding on the large one
    chk.tlc("MC_Merge", constants={"RegSize": 3, "SubsetSize": 2, "Len0": 2, "TargetId": "gu", "SubsetFilter": "all", "EMIT": False},
            invariants=["NetIsSymplectic", "NetMatchesState"])
    chk.tlc("MC_Merge", constants={"RegSize": 3, "SubsetSize": 2, "Len0": 2, "TargetId": "passive", "SubsetFilter": "all", "EMIT": False},
            invariants=["TransferUnitaryIfLossless", "TransferMatchesSymp"])
    plans = [("gu", 10, 2, 2), ("passive", 10, 2, 2), ("gu", 10, 3, 2), ("passive", 10, 3, 2)] if tier == "quick" else [("gu", 12, 2, 2), ("passive", 12, 2, 2), ("gu", 10, 3, 2), ("passive", 10, 3, 2), ("gu", 5, 2, 3)]
    for (target, regsize, ssize, L) in plans:
        r = chk.tlc("MC_Merge", constants={"RegSize": regsize, "SubsetSize": ssize, "Len0": L, "TargetId": target,
                                           "SubsetFilter": "few" if (tier == "quick" and ssize == 3) else "all", "EMIT": True},
                    invariants=["EmitInv"], timeout=3000)
        items = r.json
        _CFG.update(target=target, regsize=regsize)
        res = common.pmap(_run_one, items)
        for it, o in zip(items, res):
            chk.traces += 1
            used = it["used"]
            dag = any(x["dag"] for x in it["circ"])
            f = {"target": target, "dagger": dag, "hash_order_differs": list(set(used)) != sorted(used), "max_mode_ge_8": max(used) >= 8 if used else False,
                 "nmodes": len(used)}
            det = {"target": target, "register": regsize, "program": short(it["circ"]), "used": used}
            chk.count(key=(target, json.dumps(it["circ"])), nontrivial=len(used) >= 2)
            if not o["ok"]:
                chk.violation("UnexpectedError", dict(f, error=o["err"]), dict(det, msg=o["msg"], tb=o.get("tb")))
                continue
            if "refused" in o:
                chk.notes["refusals"] = chk.notes.get("refusals", 0) + 1
                continue
            det["compiled"] = o.get("compiled")
            if "stray" in o:
                chk.violation("CompiledShape", f, dict(det, info=o["stray"]))
            if "meta_dropped" in o:
                chk.violation("DeletionDropped", f, dict(det, compiled_with_deletion=o["meta_dropped"]))
            if "meta_error" in o:
                chk.violation("UnexpectedError", dict(f, error=o["meta_error"].split(":")[0]), dict(det, msg=o["meta_error"]))
            if o.get("regs") is not None and o["regs"] != used:
                chk.violation("OutputModes", f, dict(det, got=o["regs"], want=used))
            if target == "gu":
                S = np.array([[float(sc.fr(x)) for x in row] for row in it["S"]])
                d = np.array([float(sc.fr(x)) for x in it["d"]])
                if np.shape(o["S"]) != S.shape or np.max(np.abs(np.array(o["S"]) - S)) > 1e-9:
                    chk.violation("NetSymplectic", f, dict(det, got=np.round(o["S"], 6).tolist(), want=np.round(S, 6).tolist()))
                elif np.max(np.abs(np.array(o["d"]) - d)) > 1e-9:
                    chk.violation("NetDisplacement", f, dict(det, got=o["d"], want=d.tolist()))
            else:
                T = np.array([[complex(float(sc.fr(x[0])), float(sc.fr(x[1]))) for x in row] for row in it["T"]])
                got = np.array([[complex(*x) for x in row] for row in o["T"]])
                if got.shape != T.shape or np.max(np.abs(got - T)) > 1e-9:
                    chk.violation("NetTransfer", f, dict(det, got=str(np.round(got, 6).tolist()), want=str(np.round(T, 6).tolist())))
            mu, V = sc.exact_arrays(it["st"])
            for label in ("source", "compiled"):
                if label + "_error" in o:
                    # executing needs the simulator to decompose the merged matrix again: a failure there is a matter of the
                    # decomposition routines (C02 / C17), the compiled matrix itself has been compared above
                    chk.notes["not_executable_" + label] = chk.notes.get("not_executable_" + label, 0) + 1
                    continue
                gm, gV = np.array(o[label][0]), np.array(o[label][1])
                if np.max(np.abs(gm - mu)) > 1e-9 or np.max(np.abs(gV - V)) > 1e-9:
                    if label == "source":
                        break        # the source itself disagrees with the spec: a C01/C02 matter, not reported here
                    chk.violation("CompiledStateDiffers", f, dict(det, info="dmu=%.3g dV=%.3g" % (np.max(np.abs(gm - mu)), np.max(np.abs(gV - V)))))
                if o.get(label + "_rest_vacuum") is False:
                    chk.violation("ActsOutsideUsedModes", dict(f, at=label), det)
        mid = items[len(items) // 2]
        chk.sample({"target": target, "register": regsize, "program": short(mid["circ"]), "used": mid["used"]})
    hybrid(chk, 800 if tier == "quick" else 20000)
    chk.exhaustive = True
