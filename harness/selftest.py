"""./check --selftest : build and sanity-check the framework itself (used as MANIFEST.setup_cmd)."""
import glob
import os
import re
import subprocess

from . import common


def main():
    common.ensure_overrides()
    bad = 0
    # 1. every module parses
    for f in sorted(glob.glob(os.path.join(common.SPEC, "*.tla")) + glob.glob(os.path.join(common.SPEC, "trace", "*.tla"))):
        r = subprocess.run(["java", "-cp", common.TLA_JAR + ":" + common.CM_JAR, "tla2sany.SANY", os.path.basename(f)],
                           cwd=os.path.dirname(f), capture_output=True, text=True)
        ok = r.returncode == 0 and "Semantic errors" not in r.stdout and "Parse Error" not in r.stdout and "Fatal" not in r.stdout
        print("SANY %-28s %s" % (os.path.basename(f), "ok" if ok else "FAILED"))
        if not ok:
            print(r.stdout[-2000:])
            bad += 1
    # 2. Rat: TLA+ definitions and the BigInteger override agree
    dig = []
    for ovr in (False, True):
        r = common.run_tlc("MC_RatTest", init="Init", next_="Next", use_override=ovr, workers=1)
        m = re.search(r'<<"digest".*', r.out)
        print("Rat self-test (%s): %s %s" % ("override" if ovr else "pure TLA+", "ok" if r.ok() and m else "FAILED", m.group(0) if m else r.errors))
        if not r.ok() or not m:
            bad += 1
        else:
            dig.append(m.group(0))
    if len(dig) == 2 and dig[0] != dig[1]:
        print("Rat override disagrees with the TLA+ definitions")
        bad += 1
    bad += demos()
    print("selftest:", "ok" if not bad else "%d failures" % bad)
    return 0 if not bad else 2


# ---------------------------------------------------------------------------------------------------------------------
# binding and detection demonstrations (DESIGN 8): corrupted records must be rejected with the right clause, mutated models
# must violate their invariants.  Everything here is independent of strawberryfields.
import json
import shutil
import tempfile


def _verdicts(module, cases):
    tmp = tempfile.mkdtemp(prefix="verif-self-")
    try:
        path = os.path.join(tmp, "cases.json")
        json.dump(cases, open(path, "w"))
        r = common.run_tlc(module, invariants=["Report"], workers=2, env={"CASES_FILE": path}, tmp=tmp)
        if not r.ok():
            return ["TLC-ERROR: %s" % r.errors[:2]]
        out = {j["tid"]: j["verdict"] for j in r.json}
        return [out.get(i + 1) for i in range(len(cases))]
    finally:
        shutil.rmtree(tmp, ignore_errors=True)


def _mutant(module, files, edits, **kw):
    """copy the spec directory, apply textual edits, run TLC; returns the TLCResult"""
    tmp = tempfile.mkdtemp(prefix="verif-mut-")
    try:
        dst = os.path.join(tmp, "spec")
        shutil.copytree(common.SPEC, dst)
        for f, (old, new) in zip(files, edits):
            p = os.path.join(dst, f)
            s = open(p).read()
            assert s.count(old) >= 1, (f, old)
            open(p, "w").write(s.replace(old, new))
        old_spec, old_ovr = common.SPEC, common.OVR
        common.SPEC, common.OVR = dst, os.path.join(dst, "overrides")
        try:
            return common.run_tlc(module, tmp=tmp, **kw)
        finally:
            common.SPEC, common.OVR = old_spec, old_ovr
    finally:
        shutil.rmtree(tmp, ignore_errors=True)


def demos():
    bad = 0
    A345, A0 = [[3, 5], [4, 5]], [[1, 1], [0, 1]]

    def expect(name, got, want):
        nonlocal bad
        ok = got == want
        print("binding %-58s %s" % (name, "ok" if ok else "FAILED: got %s, want %s" % (got, want)))
        bad += 0 if ok else 1
    # C04: scheduler consumes recorded outputs
    circ = [{"id": 1, "wires": [0], "marked": False, "opt": []}, {"id": 2, "wires": [0, 1], "marked": True, "opt": [[1, 2]]},
            {"id": 3, "wires": [2], "marked": False, "opt": []}]
    base = {"circ": circ, "kind": "topo", "a": 0, "b": 0, "merged": [], "mergedopt": []}
    expect("TraceOrder: legal / swapped dependent / dropped / marked in A",
           _verdicts("TraceOrder", [dict(base, out=[3, 1, 2]), dict(base, out=[2, 1, 3]), dict(base, out=[1, 2]),
                                    dict(base, kind="group", out=[2, 1, 3], a=1, b=1)]),
           ["accepted", "DependencyOrder", "NotSameCommands", "DependencyOrder"])
    gbs = dict(base, kind="gbs", out=[1, 3, 2], a=2, b=1, merged=[0, 1])
    expect("TraceOrder (GBS): options kept / post-selection value lost",
           _verdicts("TraceOrder", [dict(gbs, mergedopt=[[0, 0], [1, 2]]), dict(gbs, mergedopt=[[0, 0], [1, 0]])]), ["accepted", "GBSOptions"])
    expect("TraceOrder: marked command in the leading part", _verdicts("TraceOrder", [dict(base, kind="group", out=[3, 1, 2], a=3, b=0)]), ["MarkedOutsideB"])
    # C03/C11: denotation of rewrites
    r1 = {"name": "Rgate", "p": [A345], "modes": [0], "dag": False}
    k1 = {"name": "Kgate", "p": [[1, 1]], "modes": [0], "dag": False}
    expect("TraceOpt: identical / dagger flipped (Gaussian) / dagger flipped (Kerr) / gate moved across Kerr gate",
           _verdicts("TraceOpt", [{"n": 1, "orig": [r1, k1], "opt": [r1, k1]}, {"n": 1, "orig": [r1], "opt": [dict(r1, dag=True)]},
                                  {"n": 1, "orig": [k1], "opt": [dict(k1, dag=True)]},
                                  {"n": 1, "orig": [{"name": "Xgate", "p": [[1, 2]], "modes": [0], "dag": False}, k1],
                                   "opt": [k1, {"name": "Xgate", "p": [[1, 2]], "modes": [0], "dag": False}]}]),
           ["accepted", "FiniteMapChanged", "FiniteMapChanged", "FiniteMapChanged"])
    # C18
    pair = {"kind": "pair", "n": 1, "p": [r1], "q": [dict(r1, dag=True)], "eqpq": True, "eqqp": True, "evpq": False, "evqp": False, "same": False,
            "perm": [], "e1": False, "e2": False}
    expect("TraceEq: equal-but-inverse / asymmetric answer / honest answer",
           _verdicts("TraceEq", [pair, dict(pair, eqqp=False), dict(pair, eqpq=False, eqqp=False)]), ["EqualButDifferent", "EqualityNotSymmetric", "accepted"])
    # C19
    step = {"kind": "step", "fn": "grow", "n": 3, "edges": [[0, 1], [1, 2], [0, 2]], "w": [1, 1, 1], "mode": "uniform", "state": [0], "succs": [[0, 1], [0, 2]],
            "ncand": 2, "stopped": False, "limit": False}
    card = {"kind": "card", "fn": "orbit_cardinality", "orbit": [1, 1], "modes": 25, "out": [300, 1], "photons": 0, "maxc": 0}
    expect("TraceApps: full candidate set / one candidate missing / exact cardinality / off by one",
           _verdicts("TraceApps", [step, dict(step, succs=[[0, 1]], ncand=1), card, dict(card, out=[299, 1])]),
           ["accepted", "CandidateSetDiffers", "accepted", "CardinalityWrong"])
    # C14
    c = {"name": "Rgate", "p": ["0.3"], "modes": [0], "dag": True, "sel": "None", "dark": "None", "deps": []}
    io = {"orig": [c], "loaded": [dict(c, dag=False)], "perm": [1], "meta_orig": "{}", "meta_loaded": "{}"}
    expect("TraceIO: dagger lost / parameter changed / faithful", _verdicts("TraceIO", [io, dict(io, loaded=[dict(c, p=["0.31"])]), dict(io, loaded=[c])]),
           ["InverseFlagLost", "ParametersDiffer", "accepted"])
    # C12
    t = [{"name": "S2gate", "modes": [0, 1]}]
    d = {"template": t, "perm": [1], "bins": 1, "maxbins": 1, "compiled": [{"name": "S2gate", "modes": [0, 1], "p": [500000, 0], "dom": [[[0, 1000000]], [[0, 0]]], "dag": False}]}
    d2 = json.loads(json.dumps(d))
    d2["compiled"][0]["p"][0] = 1400000
    d3 = json.loads(json.dumps(d))
    d3["compiled"][0]["modes"] = [1, 0]
    expect("TraceDevice: in range / out of range / swapped modes", _verdicts("TraceDevice", [d, d2, d3]), ["accepted", "ParameterOutOfRange", "ModesDifferFromLayout"])
    # C12 (Borealis): correct compensation / one loop left uncompensated / forced rotation by pi with a warning / gate on a wrong mode
    lay = [{"name": "Sgate", "modes": [3], "fixed": [0]}, {"name": "Rgate", "modes": [3], "fixed": []}, {"name": "BSgate", "modes": [2, 3], "fixed": [1570796]},
           {"name": "Rgate", "modes": [3], "fixed": []}, {"name": "Rgate", "modes": [2], "fixed": []}, {"name": "BSgate", "modes": [0, 2], "fixed": [1570796]},
           {"name": "Rgate", "modes": [2], "fixed": []}, {"name": "MeasureFock", "modes": [0], "fixed": []}]
    b = {"M": 10, "T": 4, "delays": [1, 2], "BK": 4, "smax": 2000, "sq": [500] * 4, "csq": [500] * 4, "bs": [[1] * 4, [1] * 4], "cbs": [[1] * 4, [1] * 4],
         "sphi": [[0] * 4, [0] * 4], "soff": [0, 0], "cphi": [[0, 1, 2, -2], [0, -1, -1, -2]], "coff": [1, 1], "layout": lay, "ops": lay, "warned": False, "strict": False}
    b2 = dict(b, cphi=[[0, 1, 2, -2], [0, 0, 0, 0]])
    b3 = dict(b, cphi=[[0, 1, 2, -2], [0, -1, -1, 3]])
    b4 = dict(b, sphi=[[0] * 4, [0, 0, 5, 0]], warned=True)      # the source asked for pi more than the modulator applies
    b5 = dict(b, ops=lay[:5] + [dict(lay[5], modes=[1, 2])] + lay[6:])
    expect("TraceBorealis: compensated / loop 1 left alone / out of range / pi-rotated with warning / wrong mode",
           _verdicts("TraceBorealis", [b, b2, b3, b4, b5]),
           ["accepted", "StatisticsDiffer", "ParameterOutOfRange", "StatisticsChangedWithWarning", "ModesDifferFromLayout"])
    r = common.run_tlc("MC_Borealis", constants={"M": 10, "T": 3, "Delays": common.Subst("D12"), "Thetas": [0, 1, 3], "PhiVals": [0, 1], "UserVal": 2,
                                                 "UserRule": "continue", "ClsMode": "mixing", "WithPrepare": False, "SparseSrc": False, "EMIT": False},
                       invariants=["PreservesStatistics"], use_override=False)
    expect("mutant: user-owned loop skipped entirely (code before 9d746a5) -> PreservesStatistics violated", not r.ok(), True)
    r = common.run_tlc("MC_Borealis", constants={"M": 10, "T": 3, "Delays": common.Subst("D12"), "Thetas": [0, 1, 3], "PhiVals": [0, 1], "UserVal": 2,
                                                 "UserRule": "rereference", "ClsMode": "mixing", "WithPrepare": False, "SparseSrc": False, "EMIT": False},
                       invariants=["NeverWarned"], use_override=False)
    expect("witness: a rotation by pi is forced in some behaviour -> NeverWarned violated (warned branch not vacuous)", not r.ok(), True)
    # model-level mutants: the invariants are not vacuous
    r = _mutant("MC_Opt", ["Optimizer.tla"], [("AddFirst(k, a.p[1], b.p[1], a.dag # b.dag)", "AddFirst(k, a.p[1], b.p[1], FALSE)")],
                constants={"NMod": 1, "Len0": 0, "AlphaId": "h", "EMIT": False}, invariants=["MergeAlgebraSound"])
    expect("mutant: merge ignores inverse flags -> MergeAlgebraSound violated", not r.ok(), True)
    r = _mutant("MC_TDM", ["MC_TDM.tla"], [("Off(b) + ((pos - Off(b) + g) % Bands[b])", "Off(b) + ((pos - Off(b) + 2 * g) % Bands[b])")],
                constants={"TemplateId": "n3", "T": 3, "MaxShots": 1, "HistDepth": 0, "EMIT": False}, invariants=["MeansLoop"])
    expect("mutant: register shifts by two per bin -> UnrollMeansLoop violated", not r.ok(), True)
    r = _mutant("MC_Gauss", ["PhaseSpace.tla"], [("RAdd(RMul(RMul(f(a), f(b)), @[a][b]),\n                                IF a = b /\\ (a = i \\/ a = i + k) THEN nz ELSE Zero)",
                                                   "RAdd(RMul(RMul(f(a), f(b)), @[a][b]), nz)")],
                constants={"N": 2, "Depth": 1, "AlphaId": "d", "PrefixId": "e2", "KNum": 1, "KDen": 1, "EMIT": False}, invariants=["Physical"], properties=["TargetsOnly"])
    expect("mutant: loss noise added to the whole matrix -> TargetsOnly violated", not r.ok(), True)
    r = _mutant("MC_Reg", ["MC_Reg.tla"], [("/\\ sim' = ApplySeq(sim, [j \\in 1 .. Len(ms) |-> Op(\"Del\", <<>>, <<ms[j]>>)], K)", "/\\ sim' = sim")],
                constants={"N0": 2, "MaxIdx": 3, "Depth": 2, "EMIT": False}, invariants=["RegisterAgreement"])
    expect("mutant: deletion not forwarded to the simulator -> RegisterAgreement violated", not r.ok(), True)
    life = {"NP": 2, "MaxReg": 2, "Depth": 4, "EMIT": False}
    r = common.run_tlc("MC_Life", constants=life, invariants=["NeverRefused"], use_override=False)
    expect("witness: some call history contains a refused call -> NeverRefused violated (refusals are exercised)", not r.ok(), True)
    r = _mutant("MC_Life", ["MC_Life.tla"], [("ELSE IF prog[ctx].locked THEN \"CircuitError\"\n                ELSE IF ctx # p", "ELSE IF ctx # p")],
                constants=life, properties=["LockedIsFrozen"], use_override=False)
    expect("mutant: a gate by reference is accepted on a locked program -> LockedIsFrozen violated", not r.ok(), True)
    r = _mutant("MC_Life", ["MC_Life.tla"], [("/\\ prog' = [prog EXCEPT ![p].locked = TRUE,\n                                          ![NextFree] = [Absent EXCEPT !.ex = TRUE, !.locked = TRUE,",
                                             "/\\ prog' = [prog EXCEPT ![NextFree] = [Absent EXCEPT !.ex = TRUE, !.locked = TRUE,")],
                constants=life, invariants=["SourceFlat"], use_override=False)
    expect("mutant: compiling does not lock the source -> SourceFlat violated", not r.ok(), True)
    return bad
