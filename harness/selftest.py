"""./check --selftest : build and sanity-check the framework itself (used as MANIFEST.setup_cmd)."""
import glob
import os
import re
import subprocess

from . import common


def main():
    common.ensure_overrides()
    bad = 0
    # 1. every module parses
    for f in sorted(glob.glob(os.path.join(common.SPEC, "*.tla")) + glob.glob(os.path.join(common.SPEC, "trace", "*.tla"))):
        r = subprocess.run(["java", "-cp", common.TLA_JAR + ":" + common.CM_JAR, "tla2sany.SANY", os.path.basename(f)],
                           cwd=os.path.dirname(f), capture_output=True, text=True)
        ok = r.returncode == 0 and "Semantic errors" not in r.stdout and "Parse Error" not in r.stdout and "Fatal" not in r.stdout
        print("SANY %-28s %s" % (os.path.basename(f), "ok" if ok else "FAILED"))
        if not ok:
            print(r.stdout[-2000:])
            bad += 1
    # 2. Rat: TLA+ definitions and the BigInteger override agree
    dig = []
    for ovr in (False, True):
        r = common.run_tlc("MC_RatTest", init="Init", next_="Next", use_override=ovr, workers=1)
        m = re.search(r'<<"digest".*', r.out)
        print("Rat self-test (%s): %s %s" % ("override" if ovr else "pure TLA+", "ok" if r.ok() and m else "FAILED", m.group(0) if m else r.errors))
        if not r.ok() or not m:
            bad += 1
        else:
            dig.append(m.group(0))
    if len(dig) == 2 and dig[0] != dig[1]:
        print("Rat override disagrees with the TLA+ definitions")
        bad += 1
    print("selftest:", "ok" if not bad else "%d failures" % bad)
    return 0 if not bad else 2
