"""C14: saving and loading preserves meaning.  Programs are generated over every operation class of the front end, with
all flag combinations and scalar / array / complex / symbolic / measured-parameter arguments, multi-command programs and
time-domain programs; each is written to Blackbird and XIR text with the real writers, loaded back, projected to the
abstract program and judged by TLC (TraceIO.tla: same commands, flags, parameters, options, in a compatible order)."""
import json
import traceback

from . import common, tracecases

_CFG = {}
FORMATS = ("blackbird", "xir")


def _canon(x):
    import numpy as np
    import sympy
    if x is None:
        return "None"
    if isinstance(x, (list, tuple)):
        return "[" + ",".join(_canon(v) for v in x) + "]"
    if isinstance(x, sympy.Expr) and not x.is_number:
        return "sym:" + str(sympy.simplify(x)).replace(" ", "")
    if isinstance(x, sympy.Expr):
        x = complex(x) if not x.is_real else float(x)
    if isinstance(x, (str, bool)):
        return "str:" + str(x)
    a = np.asarray(x)
    if a.dtype == object or a.dtype.kind in "US":
        return "obj:" + str(x)
    if a.shape == ():
        v = complex(a)
        def r(t):
            return "%.10g" % (0.0 if abs(t) < 1e-14 else t)
        return r(v.real) if abs(v.imag) < 1e-14 else "(%s,%s)" % (r(v.real), r(v.imag))
    flat = [_canon(v) for v in a.ravel()]
    return "arr%s:%s" % (list(a.shape), ",".join(flat))


def _project(prog):
    from strawberryfields.parameters import par_regref_deps
    out = []
    for cmd in prog.circuit:
        op = cmd.op
        deps = sorted({r.ind for r in getattr(op, "measurement_deps", set())})
        out.append({"name": type(op).__name__, "p": [_canon(v) for v in op.p], "modes": [r.ind for r in cmd.reg],
                    "dag": bool(getattr(op, "dagger", False)), "sel": _canon(getattr(op, "select", None)),
                    "dark": _canon(getattr(op, "dark_counts", None)), "deps": deps})
    meta = {"target": str(prog.target), "run_options": _canon(sorted((k, str(v)) for k, v in prog.run_options.items())),
            "backend_options": _canon(sorted((k, str(v)) for k, v in prog.backend_options.items()))}
    tdm = getattr(prog, "tdm_params", None)
    if tdm is not None:
        meta["tdm"] = _canon([list(map(float, a)) for a in tdm])
        meta["N"] = str(getattr(prog, "N", None))
    return out, json.dumps(meta, sort_keys=True)


def _match(orig, loaded):
    used, perm = set(), []
    for c in loaded:
        j = next((i for i, o in enumerate(orig) if i not in used and o == c), None)
        if j is None:
            j = next((i for i, o in enumerate(orig) if i not in used and o["name"] == c["name"] and o["modes"] == c["modes"]), None)
        if j is None:
            j = next((i for i in range(len(orig)) if i not in used), None)
        if j is None:
            break
        used.add(j)
        perm.append(j + 1)
    return perm


def catalogue():
    """(label, builder(prog, q) -> None) for single operations with flag variants"""
    import numpy as np
    from strawberryfields import ops
    U2 = np.array([[0.6, 0.8j], [0.8j, 0.6]])
    S2 = np.array([[1.25, 0.75], [0.75, 1.25]])
    cat = []

    def one(label, mk, n=1, dag=False, prefix=None):
        cat.append((label, mk, n, dag, prefix))
    for name, args in (("Xgate", (0.3,)), ("Zgate", (-0.2,)), ("Rgate", (0.4,)), ("Pgate", (0.5,)), ("Vgate", (0.1,)), ("Kgate", (0.2,)),
                       ("Dgate", (0.3, 0.7)), ("Sgate", (0.3, 0.2)), ("Fouriergate", ())):
        one(name, lambda q, name=name, args=args: getattr(ops, name)(*args) | q[0])
        one(name + ".H", lambda q, name=name, args=args: getattr(ops, name)(*args).H | q[0], dag=True)
    for name, args in (("CXgate", (0.3,)), ("CZgate", (0.2,)), ("CKgate", (0.1,)), ("BSgate", (0.4, 0.3)), ("MZgate", (0.4, 0.3)), ("S2gate", (0.3, 0.5))):
        one(name, lambda q, name=name, args=args: getattr(ops, name)(*args) | (q[1], q[0]), n=2)
        one(name + ".H", lambda q, name=name, args=args: getattr(ops, name)(*args).H | (q[0], q[1]), n=2, dag=True)
    one("LossChannel", lambda q: ops.LossChannel(0.7) | q[0])
    one("ThermalLossChannel", lambda q: ops.ThermalLossChannel(0.7, 0.2) | q[0])
    one("MSgate", lambda q: ops.MSgate(0.3, 0.1, r_anc=1.0, eta_anc=0.9, avg=True) | q[0])
    one("PassiveChannel", lambda q: ops.PassiveChannel(np.array([[0.5, 0.1], [0.2, 0.4]])) | (q[0], q[1]), n=2)
    one("Vacuum", lambda q: ops.Vacuum() | q[0])
    one("Coherent", lambda q: ops.Coherent(0.4, 0.3) | q[0])
    one("Squeezed", lambda q: ops.Squeezed(0.3, 0.2) | q[0])
    one("DisplacedSqueezed", lambda q: ops.DisplacedSqueezed(0.2, 0.1, 0.3, 0.4) | q[0])
    one("Fock", lambda q: ops.Fock(2) | q[0])
    one("Catstate", lambda q: ops.Catstate(0.8, 0.3, 0.5) | q[0])
    one("Thermal", lambda q: ops.Thermal(0.4) | q[0])
    one("GKP", lambda q: ops.GKP([0.1, 0.2], epsilon=0.15) | q[0])
    one("Ket", lambda q: ops.Ket(np.array([0.6, 0.8j, 0.0])) | q[0])
    one("DensityMatrix", lambda q: ops.DensityMatrix(np.diag([0.5, 0.25, 0.25])) | q[0])
    one("MeasureFock", lambda q: ops.MeasureFock() | (q[0], q[1]), n=2)
    one("MeasureFock(select)", lambda q: ops.MeasureFock(select=[1, 0]) | (q[0], q[1]), n=2)
    one("MeasureFock(dark)", lambda q: ops.MeasureFock(dark_counts=[0.1, 0.2]) | (q[0], q[1]), n=2)
    one("MeasureHomodyne", lambda q: ops.MeasureHomodyne(0.3) | q[0])
    one("MeasureHomodyne(select)", lambda q: ops.MeasureHomodyne(0.3, select=0.25) | q[0])
    one("MeasureHomodyne(select=0)", lambda q: ops.MeasureHomodyne(0.3, select=0) | q[0])
    one("MeasureHeterodyne", lambda q: ops.MeasureHeterodyne() | q[0])
    one("MeasureHeterodyne(select)", lambda q: ops.MeasureHeterodyne(select=0.1 + 0.2j) | q[0])
    one("MeasureThreshold", lambda q: ops.MeasureThreshold() | (q[1], q[0]), n=2)
    one("MeasureX", lambda q: ops.MeasureX | q[0])
    one("Interferometer", lambda q: ops.Interferometer(U2) | (q[0], q[1]), n=2)
    one("Interferometer(mesh)", lambda q: ops.Interferometer(U2, mesh="triangular") | (q[0], q[1]), n=2)
    one("GaussianTransform", lambda q: ops.GaussianTransform(S2) | q[0])
    one("Gaussian", lambda q: ops.Gaussian(np.diag([1.5, 1.5, 1.0, 1.0])) | (q[0], q[1]), n=2)
    one("GraphEmbed", lambda q: ops.GraphEmbed(np.array([[0.0, 1.0], [1.0, 0.0]]), mean_photon_per_mode=0.5) | (q[0], q[1]), n=2)
    one("BipartiteGraphEmbed", lambda q: ops.BipartiteGraphEmbed(np.array([[0, 0, 1, 0], [0, 0, 0, 1], [1, 0, 0, 0], [0, 1, 0, 0.0]]), mean_photon_per_mode=0.5) | (q[0], q[1], q[2], q[3]), n=4)
    return cat


def _cases(arg):
    """worker: build, save, load, project"""
    import warnings
    warnings.filterwarnings("ignore")
    import numpy as np
    import strawberryfields as sf
    from strawberryfields import ops, io
    kind, idx = arg
    out = []

    def roundtrip(label, prog, extra=None):
        orig, meta = _project(prog)
        for fmt in FORMATS:
            rec = {"label": label, "format": fmt, "orig": orig, "meta_orig": meta}
            rec.update(extra or {})
            try:
                text = (io.to_blackbird(prog) if fmt == "blackbird" else io.to_xir(prog)).serialize()
            except (NotImplementedError,) as e:
                rec["refused"] = "save: %s" % type(e).__name__
                out.append(rec)
                continue
            except Exception as e:  # noqa
                rec["save_error"] = "%s: %s" % (type(e).__name__, str(e)[:150])
                out.append(rec)
                continue
            rec["text"] = text[:600]
            after, meta_after = _project(prog)
            if after != orig or meta_after != meta:
                rec["altered"] = [c["name"] + str(c["p"])[:60] for c in after][:8]
            try:
                loaded = io.loads(text, ir=fmt)
                rec["loaded"], rec["meta_loaded"] = _project(loaded)
                rec["perm"] = _match(orig, rec["loaded"])
            except Exception as e:  # noqa
                rec["load_error"] = "%s: %s" % (type(e).__name__, str(e)[:150])
            out.append(rec)
    try:
        if kind == "single":
            label, mk, n, dag, prefix = catalogue()[idx]
            for target in (None, "gaussian"):
                prog = sf.Program(max(n, 2))
                with prog.context as q:
                    mk(q)
                if target:
                    prog._target = target
                    prog.run_options = {"shots": 3}
                    prog.backend_options = {"cutoff_dim": 5}
                roundtrip(label, prog, {"dag": dag, "target": target is not None, "symbolic": "none"})
        elif kind == "symbolic":
            variants = {
                "free": lambda q, a, b: [ops.Rgate(a) | q[0], ops.Dgate(0.3, b) | q[1]],
                "free_expr": lambda q, a, b: [ops.Rgate(2 * a + 0.5) | q[0], ops.Sgate(a * b, 0.1) | q[1]],
                "free_func": lambda q, a, b: [ops.Rgate(sf.math.sin(a)) | q[0], ops.Zgate(sf.math.sqrt(b)) | q[1]] if hasattr(sf, "math") else None,
                "measured": lambda q, a, b: [ops.MeasureHomodyne(0.1) | q[0], ops.Xgate(q[0].par) | q[1]],
                "measured_expr": lambda q, a, b: [ops.MeasureHomodyne(0.1) | q[0], ops.Zgate(2 * q[0].par + 0.25) | q[1], ops.Rgate(q[0].par * a) | q[1]],
                "measured_dagger": lambda q, a, b: [ops.MeasureX | q[0], ops.Xgate(q[0].par).H | q[1]],
                "measured_high": lambda q, a, b: [ops.MeasureHomodyne(0.1) | q[11], ops.MeasureHomodyne(0.3) | q[5], ops.Xgate(q[11].par) | q[3],
                                                  ops.Zgate(q[5].par) | q[10]],
            }
            # a feed-forward program saved after it has been run: the parameter still stands for the measurement, not for the last outcome
            variants["measured_after_run"] = lambda q, a, b: [ops.MeasureHomodyne(0.1) | q[0], ops.Xgate(2 * q[0].par) | q[1]]
            name = list(variants)[idx]
            if name == "measured_after_run":
                # measured parameters are process-wide sympy symbols (open C09/C10 finding): start this job as a fresh process would
                from sympy.core.cache import clear_cache
                clear_cache()
            prog = sf.Program(12 if name.endswith("high") else 2)
            a, b = prog.params("a", "b")
            with prog.context as q:
                r = variants[name](q, a, b)
            if name == "measured_after_run":
                np.random.seed(7)
                sf.Engine("gaussian").run(prog)
            if r is not None:
                roundtrip("symbolic:" + name, prog, {"dag": name.endswith("dagger"), "target": False, "symbolic": name})
        elif kind == "multi":
            rnd = np.random.RandomState(idx)
            pool = [lambda q: ops.Sgate(0.3, 0.1) | q[0], lambda q: ops.Rgate(0.2) | q[1], lambda q: ops.BSgate(0.4, 0.1) | (q[0], q[1]),
                    lambda q: ops.BSgate(0.4, 0.1) | (q[2], q[1]), lambda q: ops.Kgate(0.1) | q[2], lambda q: ops.LossChannel(0.8) | q[0],
                    lambda q: ops.S2gate(0.2, 0.3) | (q[2], q[0]), lambda q: ops.Dgate(0.1, 0.5) | q[2], lambda q: ops.Coherent(0.3, 0.1) | q[1],
                    lambda q: ops.Rgate(0.2) | q[1], lambda q: ops.CXgate(0.3) | (q[1], q[2])]
            prog = sf.Program(3)
            with prog.context as q:
                for k in rnd.choice(len(pool), size=rnd.randint(3, 8)):
                    pool[k](q)
                if idx % 2:
                    ops.MeasureFock() | (q[0], q[2])
                else:
                    ops.MeasureHomodyne(0.2, select=0.1) | q[1]
            if idx % 3 == 0:
                try:
                    prog = prog.compile(compiler="gaussian" if idx % 2 == 0 else "fock")
                except Exception:  # noqa: not compilable for that target -> keep the raw program
                    pass
            roundtrip("multi:%d" % idx, prog, {"dag": any(getattr(c.op, "dagger", False) for c in prog.circuit), "target": prog.target is not None,
                                               "symbolic": "none", "compiled": idx % 3 == 0})
        elif kind == "tdm":
            narr = [1, 2, 3, 11, 12][idx % 5]
            T = 3 + idx // 5
            prog = sf.TDMProgram(N=2 if idx % 2 == 0 else 3)
            arrays = [[round(0.1 * (i + 1) + 0.01 * t, 4) for t in range(T)] for i in range(narr)]
            with prog.context(*arrays) as (p, q):
                ops.Sgate(0.3, 0.0) | q[-1]
                ops.BSgate(p[0], 0.1) | (q[-2], q[-1])
                for i in range(1, narr - 1):
                    if idx % 3 == 2 and i == 1:
                        continue        # an array that no operation uses (and that is not the last one) keeps its place
                    ops.Rgate(p[i]) | q[-1]
                ops.MeasureHomodyne(p[narr - 1]) | q[0]
            roundtrip("tdm:%d arrays, N=%s" % (narr, prog.N), prog, {"dag": False, "target": False, "symbolic": "tdm", "narrays": narr})
    except Exception as e:  # noqa
        out.append({"label": "%s:%s" % (kind, idx), "harness_error": "%s: %s" % (type(e).__name__, str(e)[:200]), "tb": traceback.format_exc()[-800:]})
    return out


def c14(chk):
    tier = chk.tier
    chk.rule = ("One program per operation class of strawberryfields.ops (single- and two-mode gates plain and daggered, channels, all "
                "preparations incl. array/complex arguments, every measurement with and without select / dark counts, decompositions with "
                "matrix arguments and options), with and without target / run / backend options; programs with free parameters, arithmetic "
                "and function expressions, measured-parameter expressions; random multi-command programs (raw and compiled); time-domain "
                "programs with 1-12 parameter arrays; each is round-tripped through Blackbird and XIR text. Non-trivial = every round trip; "
                "distinct by (program, format).")
    chk.assumptions = ["numeric parameters are compared at 10 significant digits; a NotImplementedError at save time is an accepted refusal",
                       "the verdict (same commands, flags, parameters, options, compatible order) is TLC's on the projected abstract programs; "
                       "this is encode/decode fidelity at the edge of the technique (level: exploration)"]
    common.warm(fock=False)
    ncat = 62
    jobs = [("single", i) for i in range(ncat)] + [("symbolic", i) for i in range(8)] + [("multi", i) for i in range(24 if tier == "quick" else 200)] + \
           [("tdm", i) for i in range(10 if tier == "quick" else 20)]
    res = common.pmap(_cases, jobs, chunksize=2)
    cases, owners = [], []
    for lst in res:
        for rec in lst:
            if "harness_error" in rec:
                if "list index out of range" in rec["harness_error"] and rec["label"].startswith("single"):
                    continue
                raise common.MachineryError("io harness: %s %s\n%s" % (rec["label"], rec["harness_error"], rec.get("tb")))
            chk.traces += 1
            f = {"format": rec["format"], "dag": rec.get("dag", False), "symbolic": rec.get("symbolic", "none"),
                 "op": rec["label"].split(".")[0].split("(")[0] if not rec["label"].startswith(("multi", "tdm", "symbolic")) else rec["label"].split(":")[0],
                 "target": rec.get("target", False)}
            if "narrays" in rec:
                f["narrays_ge_11"] = rec["narrays"] >= 11
            if "compiled" in rec:
                f["compiled"] = rec["compiled"]
            chk.count(key=(rec["label"], rec["format"], json.dumps(rec["meta_orig"])), nontrivial=True)
            det = {"program": rec["label"], "format": rec["format"], "original": [c["name"] + ("." + "H" if c["dag"] else "") + str(c["p"])[:60] for c in rec["orig"]][:8]}
            if "refused" in rec:
                chk.notes["refusals"] = chk.notes.get("refusals", 0) + 1
                continue
            if "save_error" in rec:
                chk.violation("SaveFails", dict(f, error=rec["save_error"].split(":")[0]), dict(det, msg=rec["save_error"]))
                continue
            if "altered" in rec:
                chk.violation("SavingAltersProgram", f, dict(det, after=rec["altered"]))
            if "load_error" in rec:
                chk.violation("LoadFails", dict(f, error=rec["load_error"].split(":")[0]), dict(det, msg=rec["load_error"], text=rec["text"]))
                continue
            cases.append({k: rec[k] for k in ("orig", "loaded", "perm", "meta_orig", "meta_loaded")})
            owners.append((f, det, rec))
    verdicts = tracecases.validate(chk, "TraceIO", cases, "io", chunk=400)
    for k, (f, det, rec) in enumerate(owners):
        v = verdicts[k]["verdict"]
        if v != "accepted":
            extra = {}
            if v == "ProgramOptionsDiffer":
                mo, ml = json.loads(rec["meta_orig"]), json.loads(rec["meta_loaded"])
                extra["fields"] = "+".join(sorted(kk for kk in set(mo) | set(ml) if mo.get(kk) != ml.get(kk)))
            chk.violation(v, dict(f, **extra), dict(det, loaded=[c["name"] + ("." + "H" if c["dag"] else "") + str(c["p"])[:60] for c in rec["loaded"]][:8],
                                                   text=rec["text"], meta_orig=rec["meta_orig"], meta_loaded=rec["meta_loaded"]))
    chk.sample({"program": owners[0][1]["program"], "format": owners[0][1]["format"], "text": owners[0][2]["text"][:200]})
    chk.sample({"program": owners[-1][1]["program"], "format": owners[-1][1]["format"], "text": owners[-1][2]["text"][:300]})
    chk.exhaustive = False
