"""C03: optimisation never changes what a program computes.
Design level: MC_Opt.tla (merge algebra sound; every merge/cancel sequence preserves the denotation).
Binding: every circuit TLC enumerates is built, optimised by the real code (Program.optimize and
compile(optimize=True)); (a) the optimised program is executed on the Gaussian simulator from the probe state and
compared with TLC's exact state of the *original*; (b) the optimised circuit is projected back to abstract operations
and TLC (TraceOpt.tla) decides whether it denotes the same map (finite phase space + exact state); (c) the original
program and its operation objects must be unchanged."""
import json
import traceback

import numpy as np

from . import common, lattice, tracecases
from .lattice import short

_CFG = {}
GAUSS_ONLY_BACKEND = {"Kgate", "Vgate", "CKgate"}


def _run_one(item):
    import strawberryfields as sf
    from . import sfx, absproj
    n = item["n"]
    out = {"ok": True, "problems": []}
    try:
        prog = sfx.build_program(n, item["circ"])
        before = absproj.digest(prog)
        opt = prog.optimize()
        after = absproj.digest(prog)
        if before != after:
            out["problems"].append(("OriginalModified", "optimize() changed the source program or its operation objects"))
        try:
            out["opt"] = absproj.project_circuit(opt.circuit)
        except absproj.Unrecoverable as e:
            out["unrecoverable"] = str(e)
        out["opt_str"] = [str(c) for c in opt.circuit]
        gaussian = not any(o["name"] in GAUSS_ONLY_BACKEND for o in item["circ"])
        sim = "bosonic" if any(o["name"] == "MSgate" for o in item["circ"]) else "gaussian"
        out["sim"] = sim
        if gaussian:
            full = sfx.build_program(n, item["prefix"] + item["circ"])
            d0 = absproj.digest(full)
            runs = {}
            for label, p in (("optimize", lambda: full.optimize()),
                             ("compile_optimize", lambda: full.compile(compiler=sim, optimize=True)),
                             ("plain", lambda: full)):
                try:
                    pr = p()
                    st = sf.Engine(sim).run(pr).state
                    runs[label] = sfx.project_state(st, sim)
                except Exception as e:  # noqa
                    runs[label] = {"error": type(e).__name__, "msg": str(e)[:200]}
            if absproj.digest(full) != d0:
                out["problems"].append(("OriginalModified", "optimize/compile/run changed the source program"))
            out["runs"] = runs
        # optimised copy must itself be compilable / runnable (linked copy)
        return out
    except Exception as e:  # noqa
        return {"ok": False, "err": type(e).__name__, "msg": str(e)[:300], "tb": traceback.format_exc()[-1200:], "problems": []}


def _run_struct(item):
    """optimise a hand-listed circuit (measurements next to preparations and gates) and project the result"""
    from . import sfx, absproj
    try:
        prog = sfx.build_program(item["n"], item["circ"])
        before = absproj.digest(prog)
        opt = prog.optimize()
        out = {"ok": True, "opt": absproj.project_circuit(opt.circuit), "opt_str": [str(c) for c in opt.circuit],
               "modified": absproj.digest(prog) != before}
        return out
    except Exception as e:  # noqa
        return {"ok": False, "err": type(e).__name__, "msg": str(e)[:300], "tb": traceback.format_exc()[-1200:]}


def measurement_barriers():
    """circuits in which a measurement sits next to an operation on its mode: Merge(measurement, .) = Merge(., measurement) = fail
    in Optimizer.tla, so the measurement and its neighbours survive (a reset after a measurement does not absorb it)"""
    A0, APi2, a345 = [[1, 1], [0, 1]], [[0, 1], [1, 1]], [[3, 5], [4, 5]]

    def op(name, p, modes):
        return {"name": name, "p": p, "modes": modes, "dag": False}
    meas = [op("MeasureHomodyne", [A0, [1, 2], [1, 1]], [0]), op("MeasureHomodyne", [APi2, [0, 1], [0, 1]], [0])]
    nxt = [op("Vacuum", [], [0]), op("Coherent", [[1, 2], A0], [0]), op("Squeezed", [[4, 3], APi2], [0]), op("Rgate", [a345], [0]),
           op("Xgate", [[1, 2]], [0]), op("LossChannel", [[4, 5]], [0])]
    ent = op("BSgate", [a345, A0], [0, 1])
    out = []
    for m in meas:
        for x in nxt:
            out.append({"n": 2, "circ": [op("Sgate", [[4, 3], A0], [0]), ent, m, x]})
            out.append({"n": 2, "circ": [ent, x, m]})
            out.append({"n": 2, "circ": [ent, x, m, x]})
        out.append({"n": 2, "circ": [ent, m, m]})
    return out


def feats(item, extra=None):
    names = sorted({o["name"] for o in item["circ"]})
    f = {"families": "+".join(names), "dagger": any(o.get("dag") for o in item["circ"])}
    if extra:
        f.update(extra)
    return f


def c03(chk):
    from . import sfx_cmp as sc
    tier = chk.tier
    chk.rule = ("TLC (MC_Opt) enumerates every circuit of the stated length over an alphabet with every one-mode family plain and "
                "daggered, neutral-sum parameter pairs, near-identity parameters (1/4096), channels, preparations, non-Gaussian "
                "gates (K, V) and two-mode gates as barriers; each is optimised by the real code and judged semantically "
                "(exact state on the Gaussian simulator; TLC denotation of the projected output; source program digest). "
                "Non-trivial = the real optimiser changed the circuit.")
    chk.assumptions = ["finite phase-space interpretation p=7 for non-Gaussian gates; exact rational state for Gaussian circuits",
                       "parameters of the optimised circuit are recovered exactly as rationals (denominator <= 1e6, verified 1e-9)"]
    chk.tlc("MC_Opt", constants={"NMod": 1, "Len0": 0, "AlphaId": "h", "EMIT": False},
            invariants=["MergeAlgebraSound", "SomeCancel", "SomeMerge"])
    plans = [(1, 2, "h"), (2, 2, "g"), (1, 2, "m"), (2, 3, "s")] if tier == "quick" else [(1, 2, "h"), (2, 2, "h"), (1, 3, "h"), (2, 3, "g"), (1, 3, "m"), (2, 2, "m"), (2, 3, "s")]
    common.warm(fock=False)
    for (n, L, alpha) in plans:
        r = chk.tlc("MC_Opt", constants={"NMod": n, "Len0": L, "AlphaId": alpha, "EMIT": True},
                    invariants=["DenotationPreserved", "EmitInv"])
        items = r.json
        if tier == "thorough" and len(items) > 60000:
            items = items[chk.seed % 4::4]
        res = common.pmap(_run_one, items)
        cases, owners = [], []
        for it, o in zip(items, res):
            det = {"program": short(it["circ"]), "circ": it["circ"], "n": n}
            if not o["ok"]:
                chk.violation("UnexpectedError", feats(it, {"error": o["err"]}), dict(det, msg=o["msg"], tb=o.get("tb")))
                continue
            changed = len(o.get("opt_str", [])) != len(it["circ"])
            chk.count(key=json.dumps(it["circ"]), nontrivial=changed)
            for p in o["problems"]:
                chk.violation(p[0], feats(it), dict(det, info=p[1], optimized=o.get("opt_str")))
            if "runs" in o:
                plain = o["runs"].get("plain", {})
                plain_ok = "error" not in plain and sc.compare_state(it["st"], plain, o.get("sim", "gaussian"))[0] == "ok"
                for label in ("optimize", "compile_optimize"):
                    rr = o["runs"][label]
                    if "error" in rr:
                        if "error" not in plain:
                            chk.violation("OptimizedNotRunnable", feats(it, {"via": label, "error": rr["error"]}),
                                          dict(det, msg=rr["msg"], optimized=o.get("opt_str")))
                        continue
                    if not plain_ok:
                        continue        # the unoptimised program itself disagrees with the spec: a C01/C02 matter
                    v, worst, info = sc.compare_state(it["st"], rr, o.get("sim", "gaussian"))
                    if v == "bad":
                        chk.violation("OptimizedStateDiffers", feats(it, {"via": label}),
                                      dict(det, info=info, optimized=o.get("opt_str")))
                chk.traces += 1
            if "opt" in o:
                cases.append({"n": n, "orig": it["circ"], "opt": o["opt"]})
                owners.append((it, o))
            elif "unrecoverable" in o:
                chk.inconclusive += 1
        verdicts = tracecases.validate(chk, "TraceOpt", cases, "opt%d%d%s" % (n, L, alpha))
        for k, (it, o) in enumerate(owners):
            chk.traces += 1
            v = verdicts[k]["verdict"]
            if v != "accepted":
                chk.violation(v, feats(it), {"program": short(it["circ"]), "circ": it["circ"], "optimized": o.get("opt_str"),
                                             "projected": o["opt"], "n": n})
        mid = items[len(items) // 3]
        chk.sample({"n": n, "program": short(mid["circ"])})
    # measurements are barriers for the optimiser (direction B on hand-listed circuits)
    items = measurement_barriers()
    res = common.pmap(_run_struct, items)
    cases, owners = [], []
    for it, o in zip(items, res):
        chk.count(key=json.dumps(it["circ"]), nontrivial=True)
        if not o["ok"]:
            chk.violation("UnexpectedError", feats(it, {"error": o["err"]}), {"program": short(it["circ"]), "msg": o["msg"], "tb": o.get("tb")})
            continue
        if o["modified"]:
            chk.violation("OriginalModified", feats(it), {"program": short(it["circ"])})
        cases.append({"n": it["n"], "orig": it["circ"], "opt": o["opt"]})
        owners.append((it, o))
    verdicts = tracecases.validate(chk, "TraceOpt", cases, "optmeas")
    for k, (it, o) in enumerate(owners):
        chk.traces += 1
        if verdicts[k]["verdict"] != "accepted":
            chk.violation(verdicts[k]["verdict"], feats(it), {"program": short(it["circ"]), "circ": it["circ"], "optimized": o["opt_str"], "projected": o["opt"]})
    chk.exhaustive = True
