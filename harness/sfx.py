"""Driving the real Strawberry Fields code from abstract (spec-level) operation lists, and projecting
simulator states back to the spec's variables.  Imported inside worker processes only."""
import math
from fractions import Fraction

import numpy as np

# parameter kinds per operation (lattice conventions of spec/PhaseSpace.tla)
KINDS = {
    "Rgate": ["angle"], "Fouriergate": [], "Sgate": ["sq", "angle"], "Pgate": ["real"],
    "Dgate": ["real", "angle"], "Xgate": ["real"], "Zgate": ["real"],
    "BSgate": ["angle", "angle"], "MZgate": ["angle", "angle"], "S2gate": ["sq", "angle"],
    "CXgate": ["real"], "CZgate": ["real"],
    "LossChannel": ["trans"], "ThermalLossChannel": ["trans", "real"],
    "Vacuum": [], "Coherent": ["real", "angle"], "Squeezed": ["sq", "angle"],
    "DisplacedSqueezed": ["real", "angle", "sq", "angle"], "Thermal": ["real"],
    "MeasureHomodyne": ["angle", "select"], "MeasureHeterodyne": ["cselect"],
    "Kgate": ["real"], "Vgate": ["real"], "CKgate": ["real"],
    "sMZgate": ["angle", "angle"],
    "MSgate": ["sq", "halfangle", "sq", "real"],
    "Del": [], "New": [], "GaussianTransform": ["matrix"], "Interferometer": ["cmatrix"],
}


def fr(x):
    return Fraction(int(x[0]), int(x[1]))


def to_float(kind, v):
    if kind == "angle":
        return math.atan2(float(fr(v[1])), float(fr(v[0])))
    if kind == "sq":
        q = fr(v)
        return math.log(q.numerator) - math.log(q.denominator)
    if kind == "real":
        return float(fr(v))
    if kind == "trans":
        return float(fr(v) ** 2)
    raise KeyError(kind)


def mk_op(o):
    """abstract op (JSON from TLC) -> (strawberryfields operation instance or None for Del/New)"""
    from strawberryfields import ops
    name = o["name"]
    kinds = KINDS[name]
    p = o.get("p", [])
    if name == "MeasureHomodyne":
        sel = p[1]
        if len(p) >= 3 and fr(p[2]) == 0:       # <<angle, select, has_select>>
            sel = None
        kw = {} if sel is None or sel == "none" else {"select": float(fr(sel))}
        return ops.MeasureHomodyne(to_float("angle", p[0]), **kw)
    if name == "MeasureHeterodyne":
        sel = p[0]
        kw = {} if sel is None or sel == "none" else {"select": complex(float(fr(sel[0])), float(fr(sel[1])))}
        return ops.MeasureHeterodyne(**kw)
    if name in ("Del", "New"):
        return None
    if name == "GaussianTransform":
        import numpy as np
        return ops.GaussianTransform(np.array([[float(fr(x)) for x in row] for row in p[0]]))
    if name == "Interferometer":
        import numpy as np
        return ops.Interferometer(np.array([[complex(float(fr(x[0])), float(fr(x[1]))) for x in row] for row in p[0]]))
    if name == "Kgate":
        op = ops.Kgate(float(fr(p[0])))
        return op.H if o.get("dag") else op
    if name == "MSgate":        # average map; the abstract angle is half the squeezing phase
        return ops.MSgate(to_float("sq", p[0]), 2 * to_float("angle", p[1]), to_float("sq", p[2]), float(fr(p[3])), avg=True)
    args = [to_float(k, v) for k, v in zip(kinds, p)]
    op = getattr(ops, name)(*args)
    if o.get("dag"):
        op = op.H
    return op


def apply_hist(q, hist):
    """apply abstract operations inside an open program context; returns {mode label: RegRef}"""
    from strawberryfields import ops
    regs = {r.ind: r for r in q}
    for o in hist:
        if o["name"] == "Del":
            ops.Del | tuple(regs[m] for m in o["modes"])
            for m in o["modes"]:
                del regs[m]
        elif o["name"] == "New":
            new = ops.New(len(o["modes"]))
            for m, r in zip(o["modes"], new):
                regs[m] = r
        else:
            mk_op(o) | tuple(regs[m] for m in o["modes"])
    return regs


def build_program(n, hist, name=None):
    import strawberryfields as sf
    from strawberryfields import ops
    prog = sf.Program(n, name=name) if name else sf.Program(n)
    with prog.context as q:
        regs = {i: q[i] for i in range(n)}
        for o in hist:
            if o["name"] == "Del":
                ops.Del | tuple(regs[m] for m in o["modes"])
            elif o["name"] == "New":
                new = ops.New(len(o["modes"]))
                for m, r in zip(o["modes"], new):
                    assert r.ind == m, (r.ind, m)
                    regs[m] = r
            else:
                mk_op(o) | tuple(regs[m] for m in o["modes"])
    return prog


BACKENDS = {
    "gaussian": ("gaussian", {}),
    "bosonic": ("bosonic", {}),
    "fock": ("fock", {"pure": True}),
    "fockmixed": ("fock", {"pure": False}),
}


def engine(cfg, cutoff=None):
    import strawberryfields as sf
    b, bo = BACKENDS[cfg]
    bo = dict(bo)
    if b == "fock":
        bo["cutoff_dim"] = cutoff
    return sf.Engine(b, backend_options=bo)


# ---- projection ---------------------------------------------------------------------------------

def khbar():
    import strawberryfields as sf
    return math.sqrt(sf.hbar / 2)


def _pair_dm(t, pure, n, a, b):
    """reduced density matrix of modes (a, b), a != b, as array [ia, ib, ja, jb]"""
    L = "abcdefgh"
    U = "ABCDEFGH"
    if pure:
        lhs = "".join(L[m] for m in range(n))
        rhs = "".join(U[m] if m in (a, b) else L[m] for m in range(n))
        return np.einsum("%s,%s->%s%s%s%s" % (lhs, rhs, L[a], L[b], U[a], U[b]), t, np.conj(t))
    sub = "".join(L[m] + (U[m] if m in (a, b) else L[m]) for m in range(n))
    return np.einsum("%s->%s%s%s%s" % (sub, L[a], L[b], U[a], U[b]), t)


def fock_tensor_moments(t, pure, n, D):
    """Moments in kernel units (hbar=2: x = a + a^dag) of a Fock tensor computed with the harness' own ladder
    operators from its one- and two-mode reductions.  Returns (mu (2n), V (2n x 2n), trace, herm_defect)."""
    lad = np.diag(np.sqrt(np.arange(1, D)), 1).astype(complex)
    x = lad + lad.conj().T
    p = -1j * (lad - lad.conj().T)
    one = {"x": x, "p": p, "xx": x @ x, "pp": p @ p, "xp": (x @ p + p @ x) / 2, "px": (x @ p + p @ x) / 2}
    if pure:
        tr = float(np.real(np.vdot(t, t)))
        herm = 0.0
    else:
        rho = np.transpose(t, [2 * i for i in range(n)] + [2 * i + 1 for i in range(n)])
        mat = rho.reshape(D ** n, D ** n)
        herm = float(np.max(np.abs(mat - mat.conj().T))) if mat.size else 0.0
        tr = float(np.real(np.trace(mat)))
    mu = np.zeros(2 * n)
    V = np.zeros((2 * n, 2 * n))
    q = ["x"] * n + ["p"] * n
    singles = {}
    if n == 1:
        singles[0] = np.outer(t, np.conj(t)) if pure else t
    pairs = {}
    for a in range(n):
        for b in range(a + 1, n):
            r = _pair_dm(t, pure, n, a, b)
            pairs[(a, b)] = r
            if a not in singles:
                singles[a] = np.einsum("ibjb->ij", r)
            if b not in singles:
                singles[b] = np.einsum("aiaj->ij", r)
    for i in range(n):
        mu[i] = np.real(np.trace(one["x"] @ singles[i]))
        mu[i + n] = np.real(np.trace(one["p"] @ singles[i]))
    for a_ in range(2 * n):
        for b_ in range(a_, 2 * n):
            i, j = a_ % n, b_ % n
            if i == j:
                val = np.real(np.trace(one[q[a_] + q[b_]] @ singles[i]))
            else:
                lo, hi = (i, j) if i < j else (j, i)
                A, B = (one[q[a_]], one[q[b_]]) if i < j else (one[q[b_]], one[q[a_]])
                # Tr(rho (A (x) B)) with rho[ia, ib, ja, jb]
                val = np.real(np.einsum("abcd,ca,db->", pairs[(lo, hi)], A, B))
            V[a_, b_] = V[b_, a_] = val - mu[a_] * mu[b_]
    return mu, V, tr, herm


def project_state(state, cfg, cutoff=None):
    """-> dict(mu, V in kernel units (hbar = 2, xxpp), extras) from a state object of any simulator."""
    k = khbar()
    n = state.num_modes
    out = {"n": n}
    if n == 0:
        out.update(mu=np.zeros(0), V=np.zeros((0, 0)), trace=1.0, herm_defect=0.0, pure=True, D=cutoff or 0,
                   wsum=1.0, imag_defect=0.0, sym_defect=0.0, nweights=1)
        return out
    if cfg == "gaussian":
        out["mu"] = np.real(state.means()) / k
        out["V"] = np.real(state.cov()) / k ** 2
        out["sym_defect"] = float(np.max(np.abs(state.cov() - state.cov().T))) if n else 0.0
    elif cfg == "bosonic":
        w = state.weights()
        out["weights"] = w
        perm = [2 * i for i in range(n)] + [2 * i + 1 for i in range(n)]
        mus = np.array(state.means())[:, perm]
        covs = np.array(state.covs())[:, perm][:, :, perm]
        mu = np.einsum("w,wi->i", w, mus)
        # second moment of the mixture
        sec = np.einsum("w,wij->ij", w, covs) + np.einsum("w,wi,wj->ij", w, mus, mus) - np.outer(mu, mu)
        out["mu_c"], out["V_c"] = mu / k, sec / k ** 2
        out["mu"] = np.real(mu) / k
        out["V"] = np.real(sec) / k ** 2
        out["imag_defect"] = float(max(np.max(np.abs(np.imag(mu))) if n else 0, np.max(np.abs(np.imag(sec))) if n else 0))
        out["wsum"] = complex(np.sum(w))
        out["nweights"] = len(w)
        out["sym_defect"] = float(np.max(np.abs(sec - sec.T))) if n else 0.0
    else:
        D = state.cutoff_dim
        pure = state.is_pure
        t = state.ket() if pure else state.dm()
        mu, V, tr, herm = fock_tensor_moments(np.asarray(t), pure, n, D)
        # normalise conditional moments by the trace so that the truncation deficit is judged separately
        out["mu"], out["V"], out["trace"], out["herm_defect"], out["pure"], out["D"] = mu, V, tr, herm, pure, D
    return out


from .sfx_cmp import exact_arrays, compare_state, physical_defects  # noqa: E402,F401
