#!/usr/bin/env python3
"""Regenerates MANIFEST.json from the table below (single source of truth for claimed checks)."""
import json, os, subprocess
ROOT = os.path.dirname(os.path.abspath(__file__))
BASE = json.load(open("/root/.vp/BASELINE.json"))["cmd"]

CLAIMS = {
    "C01": ("model_checking", "TLC-enumerated lattice programs (exact rational Gaussian kernel) replayed on 4 simulator configs",
            "TLC enumerates all operation sequences of bounded depth over a rational parameter lattice on every ordered target choice and computes the exact state after each; every behaviour is replayed on gaussian, bosonic, fock-pure and fock-mixed and all first/second moments compared (1e-9 phase space; truncation slack from the measured trace deficit for Fock).",
            "§5 C01", "bounded depth/alphabet; lattice parameters; trusted TLC + Rat BigInteger override + numpy + harness ladder operators"),
    "C05": ("model_checking", "TLC action property TargetsOnly/PrepUncorrelated on the kernel + code-vs-code spectator comparison on replayed behaviours",
            "TargetsOnly and PrepUncorrelated are action properties TLC checks on every transition of the kernel model; each behaviour is replayed and the simulator's spectator moments before/after the last operation are compared (entangled, displaced, mixed prior states; all target positions).",
            "§5 C05", "same behaviour set as C01; second moments only (Gaussian family)"),
    "C07": ("model_checking", "TLC invariants Physical/PhysicalDet and conservation action properties + physicality predicates on every replayed state",
            "Kernel invariants (symmetric, uncertainty minors, det >= 1) and action properties (unitary keeps purity, passive keeps photons, loss no gain) model-checked; every simulator state returned on the replayed behaviours is tested for symmetry, V+iOmega>=0, weights, trace<=1, Hermiticity, and the conservation laws code-vs-code.",
            "§5 C07", "same behaviour set as C01"),
}
NOT_APPLICABLE = {
    "C20": "identities of real analysis (gradient = derivative, hafnian probabilities sum to one, Duschinsky algebra) over continuous inputs: no state, no transitions, no exact finite lattice; nothing for TLC to enumerate or a trace to bind (DESIGN §5 C20)",
}
PENDING_REASON = "not yet claimed: specification/harness for this property is still being built (see DESIGN §11 log)"

def main():
    props = [json.loads(l)["id"] for l in open(os.path.join(ROOT, "properties.jsonl"))]
    hooks = []
    try:
        out = subprocess.run(["git", "-C", "/repo", "log", "--format=%H %s"], capture_output=True, text=True).stdout
        hooks = [l.split()[0] for l in out.splitlines() if " verif-hook:" in l]
    except Exception:
        pass
    m = {
        "version": 1,
        "setup_cmd": "./check --selftest",
        "notes": "Model-based verification with explicit TLA+ specifications (spec/*.tla) checked by TLC and bound to the code by replaying TLC-generated behaviours (direction A) and validating recorded traces (direction B). See DESIGN.md.",
        "hooks": {"guard": "STRAWBERRYFIELDS_VERIF", "enable": "checks set STRAWBERRYFIELDS_VERIF=1 in the environment of the processes that import strawberryfields from /repo (editable install, no build step)",
                  "baseline_off_cmd": "env -u STRAWBERRYFIELDS_VERIF " + BASE.replace("cd /repo && ", "sh -c 'cd /repo && ") + "'",
                  "source_commits": hooks, "add_only": True},
        "engines": [{"name": "tlc", "path": "spec/", "serves_properties": sorted(CLAIMS), "kind_free_text": "TLA+ specifications checked with TLC 1.8 (exhaustive / simulate / trace validation); Rat arithmetic overridden with BigInteger"},
                    {"name": "harness", "path": "harness/", "serves_properties": sorted(CLAIMS), "kind_free_text": "Python conformance harness: replays TLC behaviours into strawberryfields and records traces for TLC"}],
        "checks": [], "not_applicable": [],
    }
    for pid in props:
        if pid in CLAIMS:
            cat, tech, text, ref, note = CLAIMS[pid]
            m["checks"].append({"property_id": pid, "quick_cmd": "./check %s --tier quick" % pid, "thorough_cmd": "./check %s --tier thorough" % pid,
                                "evidence_file": "evidence/%s.json" % pid, "replay_cmd_template": "./check %s --replay {path}" % pid, "engine": "tlc",
                                "level_claimed": {"category": cat, "text": text, "design_ref": ref}, "level_note": note, "technique": tech})
        else:
            m["not_applicable"].append({"property_id": pid, "reason": NOT_APPLICABLE.get(pid, PENDING_REASON)})
    json.dump(m, open(os.path.join(ROOT, "MANIFEST.json"), "w"), indent=1)
    print("claimed:", sorted(CLAIMS), "not claimed:", [x["property_id"] for x in m["not_applicable"]])

if __name__ == "__main__":
    main()
