#!/usr/bin/env python3
"""Regenerates MANIFEST.json from the table below (single source of truth for claimed checks)."""
import json, os, subprocess
ROOT = os.path.dirname(os.path.abspath(__file__))
BASE = json.load(open("/root/.vp/BASELINE.json"))["cmd"]

CLAIMS = {
    "C01": ("model_checking", "TLC-enumerated lattice programs (exact rational Gaussian kernel) replayed on 4 simulator configs",
            "TLC enumerates all operation sequences of bounded depth over a rational parameter lattice on every ordered target choice and computes the exact state after each; every behaviour is replayed on gaussian, bosonic, fock-pure and fock-mixed and all first/second moments compared (1e-9 phase space; truncation slack from the measured trace deficit for Fock).",
            "§5 C01", "bounded depth/alphabet; lattice parameters; trusted TLC + Rat BigInteger override + numpy + harness ladder operators"),
    "C03": ("model_checking", "MC_Opt.tla (merge algebra + every merge sequence preserves the denotation) and TLC-decided denotation (TraceOpt.tla: finite phase space p=7 + exact rational state) of what Program.optimize() / compile(optimize=True) actually return",
            "TLC enumerates all circuits of bounded length over an alphabet containing every one-mode family plain and daggered, neutral-sum and near-identity parameters, channels, preparations, non-Gaussian and two-mode barriers; the real optimiser's output is (a) run on the Gaussian simulator from an entangled probe state and compared with TLC's exact state of the original, (b) projected back (exact rational parameter recovery) and judged by TLC for equal denotation, (c) required to leave the source program and its operation objects unchanged. The verdict is semantic: a different but correct optimiser is accepted.",
            "§5 C03", "length <= 2 (quick) / 3 (thorough), 1-2 modes; finite phase-space interpretation for non-Gaussian gates"),
    "C04": ("model_checking", "trace validation: outputs of the real reordering routines consumed by the TLC scheduler of CircuitOrder.tla (TraceOrder.tla); scheduler == legal reorderings model-checked exhaustively (MC_Order.tla)",
            "MC_Order proves on all circuits <= 3-4 commands that the scheduler's behaviours are exactly the dependency-legal permutations and that the three-phase scheduler gives exactly the partition promise; every output recorded from list_to_DAG/DAG_to_list, list_to_grid/grid_to_DAG, group_operations (3 predicates) and GBS.compile on exhaustively enumerated + random circuits (incl. New commands, measured-parameter links) is validated by TLC step by step; any legal order is accepted, so the check is independent of networkx's tie-breaking.",
            "§5 C04", "3 modes exhaustive up to 2 (quick) / 3 (thorough) commands over 27 shapes + samples of longer circuits up to 12 commands / 6 modes; command identity = object identity"),
    "C05": ("model_checking", "TLC action property TargetsOnly/PrepUncorrelated on the kernel + code-vs-code spectator comparison on replayed behaviours",
            "TargetsOnly and PrepUncorrelated are action properties TLC checks on every transition of the kernel model; each behaviour is replayed and the simulator's spectator moments before/after the last operation are compared (entangled, displaced, mixed prior states; all target positions).",
            "§5 C05", "same behaviour set as C01; second moments only (Gaussian family)"),
    "C06": ("model_checking", "MC_Meas.tla (exact Born law and conditional state of every dyne measurement; kernel laws MeasuredModeReset, ConditionalPhysical, CovIndependentOfOutcome) + post-selected and RNG-intercepted replays on every simulator, layout checks for every ordered tuple",
            "For every pre-measurement lattice state TLC gives the exact Born mean/variance and conditional state of homodyne (4 angles x 3 values, every mode) and heterodyne measurements and the exact reduced state of every ordered tuple of modes; the harness post-selects on every simulator (conditional state, stored value, sample), intercepts numpy.random / thewalrus samplers (the distribution handed to the generator must be the Born law; a forced outcome must give the spec's conditional state), checks samples / samples_dict / RegRef.val layout for every ordered tuple and shots in {1,3}, and for Fock photon counting compares the probability vector, the conditional state of a forced joint outcome and the reset with its own projection of the pre-measurement state.",
            "§5 C06", "statistical quality of the samplers not examined; photon-count conditionals are relational (harness projection), not lattice"),
    "C07": ("model_checking", "TLC invariants Physical/PhysicalDet and conservation action properties + physicality predicates on every replayed state",
            "Kernel invariants (symmetric, uncertainty minors, det >= 1) and action properties (unitary keeps purity, passive keeps photons, loss no gain) model-checked; every simulator state returned on the replayed behaviours is tested for symmetry, V+iOmega>=0, weights, trace<=1, Hermiticity, and the conservation laws code-vs-code.",
            "§5 C07", "same behaviour set as C01"),
    "C08": ("model_checking", "TLC-enumerated New/Del/gate/measure/segment/reset histories (MC_Reg.tla, invariants RegisterAgreement, IndexForLife, NoResurrection, RejectedNotActed) executed on every simulator",
            "Every history up to the depth bound is generated by TLC together with the exact tagged state and executed through Program/Engine on gaussian, bosonic, fock-pure and fock-mixed; register, reg_refs flags, backend.get_modes(), state mode count/labels and per-mode exact data compared after every history; every action the spec disables (use/delete of a deleted or unknown index) is attempted via the front end and the simulator API and must be rejected without effect.",
            "§5 C08", "4 indices, N0=2, depth<=4 (quick samples the deepest level); tags are displacements; known finding: bosonic multi-segment"),
    "C09": ("model_checking", "MC_Run.tla (segment loop of the engine; SegIsInvisible, ErrorLeavesState) with every history executed in four call patterns + numeric twin, digests of user programs before/after every call",
            "TLC enumerates every history of commands (decomposed, daggered, feed-forward, free-parameter, channel, measurement), segment boundaries, resets and bindings; the spec's state depends only on the commands since the last reset; each history is executed as successive run calls with successor programs, as one run call with a program list, as one concatenated program and with compile_options optimize, on gaussian, bosonic and fock; final state, stored outcomes and structural digests of every user program (circuit, op objects, p, dagger, registers) around run() and compile(), also when the call raises, are compared.",
            "§5 C09", "2 modes, depth <= 3-4; known findings: bosonic multi-segment, measured-parameter symbol aliasing in list runs"),
    "C10": ("model_checking", "MC_Run.tla parameter store (LatestOutcome, SubstitutionCommutes, error steps for use-before-measure / unbound) with symbolic histories executed against their numeric twins",
            "Affine and product expressions over a measured and a free parameter on X/Z/D gates (incl. a daggered one), measure / re-measure at another angle / re-prepare orders, bindings and re-bindings across segments and resets; each history runs symbolically (four call patterns incl. optimize) and as the numeric twin TLC emits; state, stored outcomes and the error class (ParameterError) are compared on gaussian, bosonic, fock.",
            "§5 C10", "2 modes, depth <= 4-5; outcomes forced by post-selection; TF tensors as parameters out of scope"),
    "C11": ("model_checking", "MC_Merge.tla (exact net symplectic / displacement / transfer matrix on subsets of a large register; NetIsSymplectic, NetMatchesState, TransferUnitaryIfLossless, TransferMatchesSymp) compared entry-wise with what compile('gaussian_unitary' | 'passive') returns; hybrid gaussian_merge outputs judged by TLC's finite phase-space denotation (TraceOpt.tla)",
            "TLC enumerates circuits with plain and inverse gates in both target orders on every 2-subset (thorough: + 3-subsets) of a 10-12-mode register and computes the exact net action on the used modes in ascending order; the compiled program's matrix parameters, registers and executed state are compared at 1e-9; the outcome must be an equivalent program or a CircuitError. 1500 (thorough 20000) random hybrid circuits with K/V/CK barriers are compiled with gaussian_merge and the projected output (exact rational recovery of the merged matrices) must have the source's finite phase-space denotation.",
            "§5 C11", "lattice parameters; circuits of 2-3 operations for the exact part, 3-7 for the hybrid part; open findings on gaussian_merge's DAG surgery"),
    "C13": ("model_checking", "MC_TDM.tla (UnrollMeansLoop / SpaceMeansLoop on the model; history machine RollRestores, CacheCoherent) + every call history and forced-outcome run executed on TDMProgram / Engine",
            "TLC proves on the model, for single-band (N=2,3, incl. daggered and constant-parameter gates) and two-band templates, that register-shifting and space unrolling act on the same pulses with the same parameters and flags as the explicit loop, and emits the expected circuit after every history of unroll(1|2) / space_unroll(1) / roll calls (<= 3), the exact joint state of all pulses with measurements withheld, and the chain of conditional Born laws under forced outcomes; the harness executes every history (default and integer shift) and compares circuit, register and errors, runs with the generator intercepted (Born chain at every measurement, final window state, samples entry-wise by (shot, band, bin)), the space-unrolled run and the hand-written explicit loop.",
            "§5 C13", "Gaussian simulator; T = 3-6 bins; shift default / 1; space unrolling at shots = 1 (state equivalence is stated there)"),
    "C14": ("exploration", "generated programs over every operation class round-tripped through the real Blackbird / XIR writers and loaders; TLC (TraceIO.tla) judges the projected abstract programs: same commands, flags, parameters, options, order compatible with CircuitOrder.Legal",
            "One program per operation class with every flag combination, scalar / array / complex / symbolic / measured-parameter arguments, target and run options, random multi-command programs (raw and compiled) and time-domain programs with 1-12 parameter arrays are saved and loaded in both formats; the loaded program is projected to the abstract program and compared by TLC with the original up to a legal reordering. Encode/decode fidelity is at the edge of the technique: the specification contributes the abstract program, the notion of compatible order and the verdict; the inputs are a catalogue, not a TLC enumeration.",
            "§5 C14", "exploration level; numeric parameters compared at 10 significant digits; many open findings (see known_findings.json)"),
    "C15": ("model_checking", "self-composition in TLC (MC_Hbar.tla: invariant HbarFree) + replay of each program and its unit-rescaled twin at two hbar values on every simulator",
            "TLC proves on the model that, with X/Z amounts and homodyne post-selection values rescaled by sqrt(hbar2/hbar1), the hbar-free states coincide after every operation; each behaviour is then run at both hbar values (fresh processes) on gaussian, bosonic, fock-pure, fock-mixed and compared with the exact kernel state (scaling law) and pairwise on dimensionless results (mean photon number and variance, vacuum fidelity, Fock probabilities).",
            "§5 C15", "hbar = 2k^2 for rational k in {1, 1/2, 3/2, 2}; 2-3 modes, depth <= 2"),
    "C16": ("model_checking", "TLC (MC_Obs.tla) computes exact reduced moments / determinants / quadratic forms for every ordered mode tuple of every reached lattice state and checks the kernel-level consistency laws; every BaseState method of the three representations is compared with them",
            "For every state reached by the kernel model and every ordered tuple of distinct modes TLC emits the exact reduced state and the rational ingredients of parity, vacuum fidelity, purity, Wigner function, photon statistics and quadrature moments; the harness calls every observable method of the Gaussian, bosonic and Fock state objects (by position, including states with a deleted mode) and compares with the exact value, with cross-method identities (all_fock_probs vs mean_photon / parity / fock_prob) and across representations (fock_prob, number_expectation). Explicit refusals (ValueError / NotImplementedError) are accepted, answers for other modes are not.",
            "§5 C16", "Gaussian-family states only (non-Gaussian states: same-object identities only); tuples up to 2 (quick) / 3 (thorough) modes"),
    "C18": ("model_checking", "TLC-enumerated program pool (MC_Eq.tla); answers of == / equivalence() on all ordered pairs, identical twins, re-binding histories and legal reorderings judged by TLC (TraceEq.tla: SameDen via finite phase space + exact state, CircuitOrder.Legal)",
            "Every circuit of <= 2 commands over an alphabet with daggered variants, inverse parameters, relabelled modes, swapped targets of symmetric and asymmetric two-mode gates and non-Gaussian gates; all ordered pairs are compared by the real relations; TLC decides reported-true => same denotation, reflexivity (separately built twins), symmetry, and invariance of equivalence() under legal reordering of commuting commands; histories bind / compare / re-bind / compare on the same Program object are included.",
            "§5 C18", "2 modes (thorough: + 3 modes), length <= 2; equivalence() with default arguments; False answers are never alarms"),
    "C19": ("model_checking", "MC_Clique.tla (all graphs, all tie-breaks: AlwaysClique, GrowIsMaximal, SwapKeepsSize, ShrinkEndsInClique, ResizeNeverStuck) + trace validation (TraceApps.tla) of the real routines run with numpy.random.choice intercepted and every tie-break forced",
            "The clique / subgraph machines of GBSApps.tla are model-checked over all graphs on 3-4 nodes; the real grow, swap, shrink and resize are run on all graphs of 4 (quick: + sample of 5) / 5 nodes x start sets x selection modes x weights with every random tie-break forced in turn, and each visited state's observed successor set, candidate count and stop decision must equal the spec's enabled set (TLC); orbits, orbit/event cardinalities up to 60-200 modes, the probability vector event_to_sample hands to the generator and sample/orbit/event conversions are validated as exact integers / rationals.",
            "§5 C19", "graphs <= 5 nodes; photons <= 8-10; apps.sample.sample, plotting and data sets not modelled"),
}
NOT_APPLICABLE = {
    "C20": "identities of real analysis (gradient = derivative, hafnian probabilities sum to one, Duschinsky algebra) over continuous inputs: no state, no transitions, no exact finite lattice; nothing for TLC to enumerate or a trace to bind (DESIGN §5 C20)",
}
PENDING_REASON = "not yet claimed: specification/harness for this property is still being built (see DESIGN §11 log)"

def main():
    props = [json.loads(l)["id"] for l in open(os.path.join(ROOT, "properties.jsonl"))]
    hooks = []
    try:
        out = subprocess.run(["git", "-C", "/repo", "log", "--format=%H %s"], capture_output=True, text=True).stdout
        hooks = [l.split()[0] for l in out.splitlines() if " verif-hook:" in l]
    except Exception:
        pass
    m = {
        "version": 1,
        "setup_cmd": "./check --selftest",
        "notes": "Model-based verification with explicit TLA+ specifications (spec/*.tla) checked by TLC and bound to the code by replaying TLC-generated behaviours (direction A) and validating recorded traces (direction B). See DESIGN.md.",
        "hooks": {"guard": "STRAWBERRYFIELDS_VERIF", "enable": "checks set STRAWBERRYFIELDS_VERIF=1 in the environment of the processes that import strawberryfields from /repo (editable install, no build step)",
                  "baseline_off_cmd": "env -u STRAWBERRYFIELDS_VERIF " + BASE.replace("cd /repo && ", "sh -c 'cd /repo && ") + "'",
                  "source_commits": hooks, "add_only": True},
        "engines": [{"name": "tlc", "path": "spec/", "serves_properties": sorted(CLAIMS), "kind_free_text": "TLA+ specifications checked with TLC 1.8 (exhaustive / simulate / trace validation); Rat arithmetic overridden with BigInteger"},
                    {"name": "harness", "path": "harness/", "serves_properties": sorted(CLAIMS), "kind_free_text": "Python conformance harness: replays TLC behaviours into strawberryfields and records traces for TLC"}],
        "checks": [], "not_applicable": [],
    }
    for pid in props:
        if pid in CLAIMS:
            cat, tech, text, ref, note = CLAIMS[pid]
            m["checks"].append({"property_id": pid, "quick_cmd": "./check %s --tier quick" % pid, "thorough_cmd": "./check %s --tier thorough" % pid,
                                "evidence_file": "evidence/%s.json" % pid, "replay_cmd_template": "./check %s --replay {path}" % pid, "engine": "tlc",
                                "level_claimed": {"category": cat, "text": text, "design_ref": ref}, "level_note": note, "technique": tech})
        else:
            m["not_applicable"].append({"property_id": pid, "reason": NOT_APPLICABLE.get(pid, PENDING_REASON)})
    json.dump(m, open(os.path.join(ROOT, "MANIFEST.json"), "w"), indent=1)
    print("claimed:", sorted(CLAIMS), "not claimed:", [x["property_id"] for x in m["not_applicable"]])

if __name__ == "__main__":
    main()
